#!/usr/bin/env python3
"""tools/runc.py contracts.c_keys [ClassName ...]  -- run contracts of one module, print summary"""
import sys, os, time
sys.path.insert(0, os.path.dirname(os.path.dirname(os.path.abspath(__file__))))
sys.path.insert(0, os.environ.get("VERIF_REPO", "/repo"))
import importlib
from collections import Counter
from pyvc.verify import verify_contract
mod = importlib.import_module(sys.argv[1])
names = sys.argv[2:]
for c in list(mod.CONTRACTS) + list(getattr(mod, "CANARIES", [])):
    if names and type(c).__name__ not in names:
        continue
    r = verify_contract(c, max_paths=getattr(c, 'max_paths', 600))
    cnt = Counter(o["verdict"] for o in r["obligations"])
    print(f"{type(c).__name__:28s} {c.target.split('.',1)[1]:45s} paths={r['paths']:3d} {dict(cnt)} {r['wall']:.2f}s")
    seen = set()
    for o in r["obligations"]:
        if o["verdict"] != "PROVED":
            k = (o.get("clause"), o["verdict"], (o.get("reason") or "")[:60])
            if k in seen: continue
            seen.add(k)
            print("    ", o["name"], o["verdict"], (o.get("reason") or "")[:200], str(o.get("outcome"))[:90], {a: b for a, b in (o.get("model") or {}).items() if not isinstance(b, int) or abs(b) < 10**6}, o.get("frame_violation") or "")
            if o.get("tb") and os.environ.get("TB"): print(o["tb"])
