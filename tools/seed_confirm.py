#!/usr/bin/env python3
"""Confirms sub-agent seeds in a scratch worktree of /repo (outside /repo and /verif) and stores the
confirmed ones under /verif/seeded/<id>/ (patch.diff, demo.py, meta.json)."""
import json, os, shutil, subprocess, sys, tempfile, glob

HERE = os.path.dirname(os.path.dirname(os.path.abspath(__file__)))
PY = "/venv/bin/python"


def sh(cmd, cwd, timeout=600):
    r = subprocess.run(cmd, cwd=cwd, shell=True, capture_output=True, text=True, timeout=timeout)
    return r.returncode, (r.stdout + r.stderr)


def confirm(src_dir, letter, pid, store_letter=None):
    store_letter = store_letter or letter
    diff = os.path.join(src_dir, f"seed_{letter}.diff")
    demo = os.path.join(src_dir, f"seed_{letter}_demo.py")
    meta = os.path.join(src_dir, f"seed_{letter}_meta.json")
    if not (os.path.exists(diff) and os.path.exists(demo)):
        return None
    wt = tempfile.mkdtemp(prefix="seedwt_")
    os.rmdir(wt)
    sh(f"git -C /repo worktree add -q --detach {wt} HEAD", "/")
    try:
        shutil.copy(demo, os.path.join(wt, "demo.py"))
        rc0, out0 = sh(f"{PY} demo.py", wt)
        rc, out = sh(f"git apply {diff}", wt)
        if rc != 0:
            return dict(ok=False, why="patch does not apply: " + out[-300:])
        rc1, out1 = sh(f"{PY} demo.py", wt)
        rct, outt = sh(f"{PY} -m pytest -q -p no:cacheprovider --deselect tests/test_parser.py::TestArgumentParsing::test_invalid_file_argument", wt)
        tail = outt.strip().splitlines()[-1] if outt.strip() else ""
        ok = rc0 == 0 and rc1 != 0 and rct == 0 and "124 passed" in tail
        res = dict(ok=ok, demo_clean_exit=rc0, demo_patched_exit=rc1, tests=tail, demo_patched_tail=out1.strip().splitlines()[-3:])
        if ok:
            dst = os.path.join(HERE, "seeded", f"{pid}-{store_letter}")
            os.makedirs(dst, exist_ok=True)
            shutil.copy(diff, os.path.join(dst, "patch.diff"))
            shutil.copy(demo, os.path.join(dst, "demo.py"))
            m = json.load(open(meta)) if os.path.exists(meta) else {}
            m.update(dict(property=pid, source="independent sub-agent given only the property text and a scratch worktree",
                          confirmed=dict(ran=[f"git apply patch.diff (scratch worktree of /repo HEAD)", f"{PY} demo.py  -> exit {rc1} with the patch, exit {rc0} without",
                                              f"{PY} -m pytest -q  -> {tail}"])))
            json.dump(m, open(os.path.join(dst, "meta.json"), "w"), indent=1)
        return res
    finally:
        sh(f"git -C /repo worktree remove --force {wt}", "/")
        shutil.rmtree(wt, ignore_errors=True)


if __name__ == "__main__":
    args = [a for a in sys.argv[1:] if not a.startswith("--")]
    src = ([a[6:] for a in sys.argv[1:] if a.startswith("--src=")] or ["/tmp/seed"])[0]
    store = ([a[8:] for a in sys.argv[1:] if a.startswith("--store=")] or ["AB"])[0]
    for d in sorted(glob.glob(src + "/C*")):
        pid = os.path.basename(d)
        if args and pid not in args:
            continue
        for letter, sl in zip("AB", store):
            r = confirm(d, letter, pid, sl)
            print(pid, sl, json.dumps(r)[:300], flush=True)
