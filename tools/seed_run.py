#!/usr/bin/env python3
"""Runs the registered checks against every confirmed seeded change (on scratch copies, never /repo).
   tools/seed_run.py [ids...]   -> seeded/RESULTS.json : which check catches which change"""
import json, os, shutil, subprocess, sys, tempfile, time, glob
HERE = os.path.dirname(os.path.dirname(os.path.abspath(__file__)))
sys.path.insert(0, os.path.join(HERE, "tools"))
import mut


def run(seed_dir, props=None, tier="quick"):
    meta = json.load(open(os.path.join(seed_dir, "meta.json")))
    pid = meta["property"]
    d = mut.scratch()
    try:
        r = subprocess.run(["patch", "-p1", "-s", "-i", os.path.join(seed_dir, "patch.diff")], cwd=d, capture_output=True, text=True)
        if r.returncode != 0:
            return dict(error="patch failed: " + r.stdout + r.stderr)
        return mut.run_checks(d, props or [pid], tier)
    finally:
        shutil.rmtree(d, ignore_errors=True)


if __name__ == "__main__":
    ids = [a for a in sys.argv[1:] if not a.startswith("--")]
    extra = [a[8:].split(",") for a in sys.argv[1:] if a.startswith("--props=")]
    out = [a[6:] for a in sys.argv[1:] if a.startswith("--out=")]
    path = out[0] if out else os.path.join(HERE, "seeded", "RESULTS.json")
    results = json.load(open(path)) if os.path.exists(path) else {}
    for sd in sorted(glob.glob(os.path.join(HERE, "seeded", "C*-*"))):
        sid = os.path.basename(sd)
        if ids and sid not in ids and sid.split("-")[0] not in ids:
            continue
        r = run(sd, extra[0] if extra else None)
        caught = {p: v.get("exit") for p, v in r.items()} if "error" not in r else r
        results[sid] = dict(checks=caught, lines={p: v.get("lines", [])[-2:] for p, v in r.items()} if "error" not in r else {},
                            detail={p: v.get("detail", []) for p, v in r.items()} if "error" not in r else {},
                            lost={p: v.get("lost", []) for p, v in r.items()} if "error" not in r else {},
                            at=time.strftime("%Y-%m-%dT%H:%M:%S"))
        print(sid, caught, flush=True)
    json.dump(results, open(path, "w"), indent=1)
