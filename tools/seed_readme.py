#!/usr/bin/env python3
"""Generates seeded/README.md from seeded/*/meta.json and seeded/RESULTS.json"""
import json, os, glob
HERE = os.path.dirname(os.path.dirname(os.path.abspath(__file__)))
res = json.load(open(os.path.join(HERE, "seeded", "RESULTS.json")))
rows = []
stats = dict(total=0, caught=0, deductive_replayed=0, deductive_no_input=0, bounded=0)
for sd in sorted(glob.glob(os.path.join(HERE, "seeded", "C*-*"))):
    sid = os.path.basename(sd)
    meta = json.load(open(os.path.join(sd, "meta.json")))
    pid = meta["property"]
    r = res.get(sid, {})
    ex = (r.get("checks") or {}).get(pid)
    det = (r.get("detail") or {}).get(pid, [])
    lines = (r.get("lines") or {}).get(pid, [])
    first = det[0] if det else (lines[-1] if lines else "")
    viol = [l for l in lines if l.startswith("VIOLATION")]
    ded = [d for d in det if " REFUTED" in d]
    if ded:
        det = ded + [d for d in det if d not in ded]
        first = det[0]
    if det:
        kind = "deductive" if ded else "bounded stand-in"
        if kind == "deductive" and not any("replay:" in d and "no-failing" not in d for d in det) and all(v.endswith("no-failing-input-found") for v in viol):
            kind = "deductive, no-failing-input-found"
    else:
        kind = "?"
    if kind == "deductive" and viol and all(v.endswith("no-failing-input-found") for v in viol):
        kind = "deductive, no-failing-input-found"
    stats["total"] += 1
    if ex == 1:
        stats["caught"] += 1
        stats["bounded" if kind.startswith("bounded") else ("deductive_no_input" if "no-failing" in kind else "deductive_replayed")] += 1
    rnd = {"A": 1, "B": 1, "C": 2, "D": 2, "E": 3, "F": 3, "G": 4, "H": 4, "I": 5}[sid[-1]]
    name = first.split(" ")[0] if first else ""
    rows.append(f"| {sid} | {rnd} | {(meta.get('summary') or '')[:230].replace('|', '/')} | exit {ex} | {kind} | `{name[:110]}` |")
out = ["# Seeded property-breaking changes (independent sub-agents; confirmed by us before storing)", "",
       "Each directory holds `patch.diff` (relative to /repo HEAD), `demo.py` (exits 0 on the clean tree, non-zero with the patch)",
       "and `meta.json`. None of them is ever committed to /repo; `tools/seed_run.py` applies each to a scratch copy and runs",
       "the registered quick check of the seed's property.", "",
       f"Last full run: {stats['caught']} of {stats['total']} reported by the check of their property "
       f"({stats['deductive_replayed']} refuted deductively with a counterexample that replays on the real code, "
       f"{stats['deductive_no_input']} deductively without a replayable input, {stats['bounded']} by a bounded stand-in after the proof was lost or for a process-level clause).", "",
       "| seed | round | change | check | decided by | first failed obligation |", "|---|---|---|---|---|---|"] + rows
open(os.path.join(HERE, "seeded", "README.md"), "w").write("\n".join(out) + "\n")
print(stats)
