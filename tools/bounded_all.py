#!/usr/bin/env python3
"""Soundness self-check of the bounded stand-in: on the UNCHANGED tree the run-time evaluation of every
contract (boundary corpus + random samples, chosen-output PRF) must find no violation.
   tools/bounded_all.py [module ...]     (one process per contract, 60 s limit each)"""
import sys, os, time, json
HERE = os.path.dirname(os.path.dirname(os.path.abspath(__file__)))
sys.path.insert(0, HERE)
sys.path.insert(0, os.environ.get("VERIF_REPO", "/repo"))
import importlib
import multiprocessing as mp
import props


def one(spec, q):
    from pyvc.check import find_contract
    from pyvc.bounded import bounded_contract
    c = find_contract(spec)
    try:
        r = bounded_contract(c, 1, n=40, budget_s=20)
    except Exception as e:
        r = dict(verdict="ERROR", detail=repr(e))
    q.put({k: (v if k != "replay" else {kk: vv for kk, vv in v.items() if kk in ("failed", "observed", "detail")}) for k, v in r.items() if k in ("verdict", "evaluations", "skipped", "replay", "detail", "model")})


if __name__ == "__main__":
    mods = sys.argv[1:] or props.CONTRACT_MODULES
    specs = []
    for m in mods:
        mod = importlib.import_module(m)
        specs += [f"{m}:{type(c).__name__}" for c in mod.CONTRACTS]
    ctx = mp.get_context("fork")
    bad, stuck, zero = [], [], []
    running = []
    pending = list(specs)
    results = {}
    while pending or running:
        while pending and len(running) < 12:
            s = pending.pop(0)
            q = ctx.Queue()
            p = ctx.Process(target=one, args=(s, q))
            p.start()
            running.append((s, p, q, time.time()))
        time.sleep(0.5)
        for item in list(running):
            s, p, q, t0 = item
            if not p.is_alive() or time.time() - t0 > 90:
                r = None
                try:
                    r = q.get(timeout=1) if not q.empty() else None
                except Exception:
                    pass
                if p.is_alive():
                    p.terminate()
                    stuck.append(s)
                    print("STUCK    ", s, flush=True)
                elif r is None:
                    print("NORESULT ", s, flush=True)
                else:
                    if r["verdict"] == "VIOLATED":
                        bad.append(s)
                        print("VIOLATED ", s, json.dumps(r, default=str)[:400], flush=True)
                    elif r["verdict"] == "ERROR":
                        print("ERROR    ", s, r.get("detail"), flush=True)
                    elif not r.get("evaluations"):
                        zero.append(s)
                running.remove(item)
    print("contracts:", len(specs), "false violations:", len(bad), "stuck:", len(stuck), "no concrete evaluation (symbolic-only inputs):", len(zero))
    print("zero-eval:", zero[:80])
