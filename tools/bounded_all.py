#!/usr/bin/env python3
"""Soundness self-check of the bounded stand-in: on the UNCHANGED tree the run-time evaluation of every
contract (boundary corpus + random samples, chosen-output PRF) must find no violation.
   tools/bounded_all.py [module ...]"""
import sys, os, time, json
sys.path.insert(0, os.path.dirname(os.path.dirname(os.path.abspath(__file__))))
sys.path.insert(0, os.environ.get("VERIF_REPO", "/repo"))
import importlib
import concurrent.futures as cf
import multiprocessing as mp
import props


def one(spec):
    sys.path.insert(0, os.path.dirname(os.path.dirname(os.path.abspath(__file__))))
    from pyvc.check import find_contract
    from pyvc.bounded import bounded_contract
    c = find_contract(spec)
    t = time.time()
    try:
        r = bounded_contract(c, 1, n=60, budget_s=25)
    except Exception as e:
        return spec, dict(verdict="ERROR", detail=repr(e)), time.time() - t
    return spec, r, time.time() - t


if __name__ == "__main__":
    mods = sys.argv[1:] or props.CONTRACT_MODULES
    specs = []
    for m in mods:
        mod = importlib.import_module(m)
        specs += [f"{m}:{type(c).__name__}" for c in mod.CONTRACTS]
    bad = []
    with cf.ProcessPoolExecutor(max_workers=14, mp_context=mp.get_context("fork")) as ex:
        for spec, r, dt in ex.map(one, specs):
            v = r["verdict"]
            if v != "HELD" or r.get("evaluations", 0) == 0:
                print(f"{v:9s} evals={r.get('evaluations')} skipped={r.get('skipped')} {dt:5.1f}s {spec} {str(r.get('replay', r.get('detail')))[:300]}", flush=True)
            if v == "VIOLATED":
                bad.append(spec)
    print("contracts:", len(specs), "false violations:", len(bad))
