#!/usr/bin/env python3
"""Engine cross-check (DESIGN §2.7.4): pyvc used as an INTERPRETER on concrete inputs must agree with CPython
running the same real function: same outcome kind, same exception class, structurally equal result and heap.
   tools/xcheck.py [module ...]"""
import sys, os, time, json, random
HERE = os.path.dirname(os.path.dirname(os.path.abspath(__file__)))
sys.path.insert(0, HERE)
sys.path.insert(0, os.environ.get("VERIF_REPO", "/repo"))
import importlib
import multiprocessing as mp
import props


from pyvc.replay import canon, _wild, _same, deep_same      # noqa: E402


def one(spec, q):
    if os.environ.get("XCHECK_MODELS"):
        import pyvc.models as _M
        _M.FORCE_MODELS = True
    from pyvc.check import find_contract
    from pyvc.engine import Ctx, PyRaise, Undecided, PathCut, PathLimit
    from pyvc.bounded import RandomBuilder
    from pyvc.replay import Materializer, ConcreteBuilder
    from pyvc.verify import resolve_target
    c = find_contract(spec)
    if hasattr(c, "run") or hasattr(c, "run_real") or hasattr(c, "loops"):
        q.put(dict(skipped="custom run / loop spec"))
        return
    rng = random.Random(5)
    n = mism = und = 0
    first = None
    t0 = time.time()
    for i in range(25):
        if time.time() - t0 > 40:
            break
        ctx0 = Ctx([])
        RB = RandomBuilder(ctx0, rng)
        try:
            c.inputs(RB)
        except Exception:
            continue
        if not RB.ok:
            continue
        vals = dict(RB.vals)
        # (a) interpreter
        ctx_a = Ctx([], opts=dict(getattr(c, "opts", {}) or {}, no_fold={c.target}, no_summary=set(__import__("pyvc.engine", fromlist=["SUMMARIES"]).SUMMARIES)))
        CBa = ConcreteBuilder(ctx_a, vals)
        args, kwargs, I = c.inputs(CBa)
        f = resolve_target(c.target)
        from pyvc.logic import OBytes, is_sym, Rope
        if any(isinstance(a, OBytes) or is_sym(a) or (isinstance(a, Rope) and not a.is_concrete()) for a in list(args) + list(kwargs.values())):
            und += 1
            continue
        try:
            va = ctx_a.call_value(f, args, kwargs)
            ka = ("return", None)
        except PyRaise as e:
            va, ka = None, ("raise", e.exc_cls)
        except (Undecided, PathCut, PathLimit, NotImplementedError) as e:
            und += 1
            continue
        except Exception as e:
            und += 1
            continue
        # (b) CPython
        ctx_b = Ctx([])
        CBb = ConcreteBuilder(ctx_b, vals)
        args_b, kwargs_b, Ib = c.inputs(CBb)
        M = Materializer(ctx_b)
        try:
            rargs = [M.mat(a) for a in args_b]
            rkw = {k: M.mat(v) for k, v in kwargs_b.items()}
        except Exception:
            und += 1
            continue
        try:
            vb = f(*rargs, **rkw)
            kb = ("return", None)
        except BaseException as e:
            vb, kb = None, ("raise", type(e))
        lb = vb
        n += 1
        ok = ka[0] == kb[0] and (ka[0] == "return" or (issubclass(ka[1], kb[1]) or issubclass(kb[1], ka[1])))
        ca = cb = None
        if ok and ka[0] == "return":
            ok, ca, cb = deep_same(ctx_a, va, ctx_b, lb)
        if not ok:
            mism += 1
            if first is None:
                first = dict(ca=str(ca)[:600], cb=str(cb)[:600], vals={k: (v if not isinstance(v, int) or abs(v) < 10 ** 12 else hex(v)) for k, v in vals.items()}, interp=str((ka, va))[:200], cpython=str((kb, vb))[:200])
    q.put(dict(evaluations=n, mismatches=mism, undecided=und, first=first))


if __name__ == "__main__":
    if "--models" in sys.argv:
        sys.argv.remove("--models")
        os.environ["XCHECK_MODELS"] = "1"
    mods = sys.argv[1:] or props.CONTRACT_MODULES
    specs = []
    for m in mods:
        mod = importlib.import_module(m)
        specs += [f"{m}:{type(c).__name__}" for c in mod.CONTRACTS]
    ctx = mp.get_context("fork")
    pending, running = list(specs), []
    tot = dict(evaluations=0, mismatches=0, contracts=0, skipped=0, stuck=0)
    while pending or running:
        while pending and len(running) < 12:
            s = pending.pop(0)
            q = ctx.Queue()
            p = ctx.Process(target=one, args=(s, q))
            p.start()
            running.append((s, p, q, time.time()))
        time.sleep(0.3)
        for item in list(running):
            s, p, q, t0 = item
            if not p.is_alive() or time.time() - t0 > 90:
                r = None
                try:
                    r = q.get(timeout=1) if not q.empty() else None
                except Exception:
                    pass
                if p.is_alive():
                    p.terminate()
                    tot["stuck"] += 1
                elif r is not None:
                    if "skipped" in r:
                        tot["skipped"] += 1
                    else:
                        tot["contracts"] += 1
                        tot["evaluations"] += r["evaluations"]
                        tot["mismatches"] += r["mismatches"]
                        if r["mismatches"]:
                            print("MISMATCH", s, json.dumps(r, default=str)[:700], flush=True)
                running.remove(item)
    print(json.dumps(tot))
    if not sys.argv[1:]:
        name = "XCHECK_MODELS.json" if os.environ.get("XCHECK_MODELS") else "XCHECK.json"
        json.dump(tot, open(os.path.join(HERE, "selftest", name), "w"), indent=1)
    sys.exit(1 if tot["mismatches"] else 0)
