#!/usr/bin/env python3
"""tools/runl.py lemmas.l_c10:lemmas  -- run a lemma function and print the results"""
import sys, os
sys.path.insert(0, os.path.dirname(os.path.dirname(os.path.abspath(__file__))))
sys.path.insert(0, os.environ.get("VERIF_REPO", "/repo"))
from pyvc.check import load_obj
fn = load_obj(sys.argv[1])
for o in fn(dict(tier=(sys.argv[2] if len(sys.argv) > 2 else "quick"), seed=0, pid="X")):
    print(f"{o['verdict']:10s} {o.get('time',0):6.2f}s {o['name']}  {o.get('reason','') or ''} {str(o.get('model',''))[:300] if o['verdict']=='REFUTED' else ''}")
