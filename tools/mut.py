#!/usr/bin/env python3
"""Mutation self-test helper (scratch copies only, never /repo):
   tools/mut.py <props comma list> <file> <old> <new>     -> runs vcheck on a scratch copy with the edit
   tools/mut.py --catalogue selftest/catalogue.json          -> runs the whole catalogue, writes selftest/RESULTS.json"""
import json, os, shutil, subprocess, sys, tempfile, time

HERE = os.path.dirname(os.path.dirname(os.path.abspath(__file__)))


def scratch():
    d = tempfile.mkdtemp(prefix="btcmut_")
    shutil.copytree("/repo/btc_hd_wallet", os.path.join(d, "btc_hd_wallet"))
    shutil.copytree("/repo/tests", os.path.join(d, "tests"))
    return d


def apply_edit(d, file, old, new, count=1):
    p = os.path.join(d, file)
    s = open(p).read()
    if s.count(old) < 1:
        raise SystemExit(f"pattern not found in {file}: {old!r}")
    s = s.replace(old, new, count)
    open(p, "w").write(s)


def run_checks(d, props, tier="quick"):
    out = {}
    env = dict(os.environ, VERIF_REPO=d)
    for p in props:
        t = time.time()
        r = subprocess.run([os.path.join(HERE, "vcheck"), p, "--tier", tier], env=env, capture_output=True, text=True)
        out[p] = dict(exit=r.returncode, wall=round(time.time() - t, 1),
                      lines=[l for l in r.stdout.splitlines() if l.startswith(("VIOLATION", "KNOWN", "["))][:6],
                      detail=[l.strip()[:260] for l in r.stdout.splitlines() if l.startswith("   ") and (" REFUTED" in l or " VIOLATED" in l)][:4],
                      lost=[l.strip()[:200] for l in r.stdout.splitlines() if "proof lost" in l][:1],
                      tail=r.stdout.splitlines()[-12:] if r.returncode not in (0, 1) else [])
    return out


def run_tests(d):
    r = subprocess.run(["/venv/bin/python", "-m", "pytest", "-q", "-p", "no:cacheprovider", "-x", "--deselect",
                        "tests/test_parser.py::TestArgumentParsing::test_invalid_file_argument"], cwd=d,
                       capture_output=True, text=True)
    return r.returncode == 0, r.stdout.splitlines()[-1] if r.stdout else ""


def one(props, edits, tests=True):
    d = scratch()
    try:
        for e in edits:
            apply_edit(d, *e)
        res = dict(checks=run_checks(d, props))
        if tests:
            res["tests_pass"], res["tests_tail"] = run_tests(d)
        return res
    finally:
        shutil.rmtree(d, ignore_errors=True)


if __name__ == "__main__":
    if sys.argv[1] == "--catalogue":
        cat = json.load(open(sys.argv[2]))
        only = sys.argv[3].split(",") if len(sys.argv) > 3 and sys.argv[3] != "all" else None
        save = len(sys.argv) <= 3
        results = []
        for m in cat:
            if only and m["id"] not in only and not any(p in only for p in m["props"]):
                continue
            r = one(m["props"], [tuple(e) for e in m["edits"]], tests=m.get("tests", True))
            want = m.get("expect", "violation")
            ok = all((c["exit"] == 1) if want == "violation" else (c["exit"] == 0) for c in r["checks"].values())
            results.append(dict(id=m["id"], props=m["props"], expect=want, ok=ok, tests_pass=r.get("tests_pass"),
                                checks={k: dict(exit=v["exit"], wall=v["wall"], lines=v["lines"][:3]) for k, v in r["checks"].items()}))
            print(("OK  " if ok else "MISS"), m["id"], {k: v["exit"] for k, v in r["checks"].items()}, "tests_pass=", r.get("tests_pass"), flush=True)
        if save:
            json.dump(results, open(os.path.join(HERE, "selftest", "RESULTS.json"), "w"), indent=1)
    else:
        props = sys.argv[1].split(",")
        r = one(props, [(sys.argv[2], sys.argv[3], sys.argv[4])])
        print(json.dumps(r, indent=1))
