#!/usr/bin/env python3
"""Runs the registered quick check of its property against every confirmed behaviour-preserving refactoring
(benign_refactors/<id>/patch.diff on a scratch copy, never /repo): every check must exit 0 (no VIOLATION line).
   tools/ben_run.py [--out=file] [ids or property ids ...]   -> benign_refactors/RESULTS.json"""
import json, os, shutil, subprocess, sys, time, glob
HERE = os.path.dirname(os.path.dirname(os.path.abspath(__file__)))
sys.path.insert(0, os.path.join(HERE, "tools"))
import mut

if __name__ == "__main__":
    ids = [a for a in sys.argv[1:] if not a.startswith("--")]
    out = [a[6:] for a in sys.argv[1:] if a.startswith("--out=")]
    path = out[0] if out else os.path.join(HERE, "benign_refactors", "RESULTS.json")
    results = json.load(open(path)) if os.path.exists(path) else {}
    for sd in sorted(glob.glob(os.path.join(HERE, "benign_refactors", "C*-*"))):
        sid = os.path.basename(sd)
        if ids and sid not in ids and sid.split("-")[0] not in ids:
            continue
        pid = json.load(open(os.path.join(sd, "meta.json")))["property"]
        d = mut.scratch()
        try:
            r = subprocess.run(["patch", "-p1", "-s", "-i", os.path.join(sd, "patch.diff")], cwd=d, capture_output=True, text=True)
            if r.returncode != 0:
                results[sid] = dict(error="patch failed: " + r.stdout + r.stderr)
                continue
            res = mut.run_checks(d, [pid])[pid]
        finally:
            shutil.rmtree(d, ignore_errors=True)
        results[sid] = dict(exit=res["exit"], wall=res["wall"], lines=res["lines"][-3:], detail=res.get("detail", []), lost=res.get("lost", []),
                            tail=res.get("tail", [])[-4:], at=time.strftime("%Y-%m-%dT%H:%M:%S"))
        print(sid, res["exit"], (res.get("lost") or [""])[0][:150], flush=True)
    json.dump(results, open(path, "w"), indent=1)
