#!/usr/bin/env python3
"""tools/hang.py <Cxx> [seconds]: run the work items of one property sequentially in-process with a
watchdog that dumps the Python traceback of an item exceeding the time slice (debugging aid)."""
import sys, os, time, faulthandler
HERE = os.path.dirname(os.path.dirname(os.path.abspath(__file__)))
sys.path.insert(0, HERE)
sys.path.insert(0, os.environ.get("VERIF_REPO", "/repo"))
from pyvc.check import run_item
pid = sys.argv[1]
limit = int(sys.argv[2]) if len(sys.argv) > 2 else 90
items = __import__("props." + pid, fromlist=["items"]).items("quick")
for it in items:
    it.update(pid=pid, tier="quick", seed=0)
    print(it["spec"], flush=True)
    faulthandler.cancel_dump_traceback_later()
    faulthandler.dump_traceback_later(limit, exit=True)
    t = time.time()
    r = run_item(it)
    from collections import Counter
    print("   %.1fs" % (time.time() - t), dict(Counter(o["verdict"] for o in r["obligations"])), flush=True)
