#!/usr/bin/env python3
"""Confirms behaviour-preserving refactorings from independent sub-agents (scratch worktrees of /repo, outside /repo
and /verif) and stores them under /verif/benign_refactors/<id>/ (patch.diff, equiv.py, meta.json):
applies to HEAD, the 124 tests pass, the agent's old-vs-new equivalence program exits 0 with the patch applied."""
import json, os, shutil, subprocess, sys, tempfile, glob
from concurrent.futures import ThreadPoolExecutor
HERE = os.path.dirname(os.path.dirname(os.path.abspath(__file__)))
PY = "/venv/bin/python"


def sh(cmd, cwd, timeout=900):
    try:
        r = subprocess.run(cmd, cwd=cwd, shell=True, capture_output=True, text=True, timeout=timeout)
        return r.returncode, (r.stdout + r.stderr)
    except subprocess.TimeoutExpired:
        return 124, "timeout"


def confirm(job):
    src, pid, letter, sl = job
    diff = os.path.join(src, f"ref_{letter}.diff")
    eq = os.path.join(src, f"ref_{letter}_equiv.py")
    meta = os.path.join(src, f"ref_{letter}_meta.json")
    if not (os.path.exists(diff) and os.path.exists(eq)):
        return pid, sl, dict(ok=False, why="missing files")
    wt = tempfile.mkdtemp(prefix="benwt_")
    os.rmdir(wt)
    sh(f"git -C /repo worktree add -q --detach {wt} HEAD", "/")
    try:
        rc, out = sh(f"git apply {diff}", wt)
        if rc != 0:
            return pid, sl, dict(ok=False, why="patch does not apply: " + out[-200:])
        shutil.copy(eq, os.path.join(wt, "equiv.py"))
        rct, outt = sh(f"{PY} -m pytest -q -p no:cacheprovider --deselect tests/test_parser.py::TestArgumentParsing::test_invalid_file_argument", wt)
        tail = outt.strip().splitlines()[-1] if outt.strip() else ""
        rce, oute = sh(f"{PY} equiv.py", wt, timeout=900)
        ok = rct == 0 and "124 passed" in tail and rce == 0
        res = dict(ok=ok, tests=tail, equiv_exit=rce, equiv_tail=oute.strip().splitlines()[-2:])
        if ok:
            dst = os.path.join(HERE, "benign_refactors", f"{pid}-{sl}")
            os.makedirs(dst, exist_ok=True)
            shutil.copy(diff, os.path.join(dst, "patch.diff"))
            shutil.copy(eq, os.path.join(dst, "equiv.py"))
            m = json.load(open(meta)) if os.path.exists(meta) else {}
            m.update(dict(property=pid, source="independent sub-agent given only the property text and a scratch worktree; asked for a behaviour-preserving refactoring",
                          confirmed=dict(ran=["git apply patch.diff (scratch worktree of /repo HEAD)", f"{PY} -m pytest -q -> {tail}",
                                              f"{PY} equiv.py (old vs new on thousands of inputs) -> exit {rce}"])))
            json.dump(m, open(os.path.join(dst, "meta.json"), "w"), indent=1)
        return pid, sl, res
    finally:
        sh(f"git -C /repo worktree remove --force {wt}", "/")
        shutil.rmtree(wt, ignore_errors=True)


if __name__ == "__main__":
    src = ([a[6:] for a in sys.argv[1:] if a.startswith("--src=")] or ["/tmp/ben1"])[0]
    only = [a for a in sys.argv[1:] if not a.startswith("--")]
    store = ([a[8:] for a in sys.argv[1:] if a.startswith("--store=")] or ["ABC"])[0]
    jobs = [(d, os.path.basename(d), l, sl) for d in sorted(glob.glob(src + "/C*")) for l, sl in zip("ABC", store) if not only or os.path.basename(d) in only]
    with ThreadPoolExecutor(max_workers=10) as ex:
        for pid, letter, res in ex.map(confirm, jobs):
            print(pid, letter, json.dumps(res)[:260], flush=True)
