"""Base58 / Base58Check written from the Bitcoin wiki definition (independent of the repository)."""
import hashlib

ALPHABET = "123456789ABCDEFGHJKLMNPQRSTUVWXYZabcdefghijkmnopqrstuvwxyz"
assert len(ALPHABET) == 58 and len(set(ALPHABET)) == 58 and not (set(ALPHABET) & set("0OIl"))


def digits(n, base=58):
    """most-significant-first digit list of n >= 0; [] for 0"""
    out = []
    while n > 0:
        n, r = divmod(n, base)
        out.append(r)
    return out[::-1]


def b58encode(b: bytes) -> str:
    lz = len(b) - len(b.lstrip(b"\x00"))
    return "1" * lz + "".join(ALPHABET[d] for d in digits(int.from_bytes(b, "big")))


def b58decode(s: str) -> bytes:
    """strict inverse of b58encode (raises ValueError on characters outside the alphabet)"""
    n = 0
    for c in s:
        i = ALPHABET.find(c)
        if i < 0:
            raise ValueError("not base58")
        n = n * 58 + i
    lz = len(s) - len(s.lstrip("1"))
    body = n.to_bytes((n.bit_length() + 7) // 8, "big")
    return b"\x00" * lz + body


def hash256(b):
    return hashlib.sha256(hashlib.sha256(b).digest()).digest()


def b58check_encode(payload: bytes) -> str:
    return b58encode(payload + hash256(payload)[:4])


def b58check_decode(s: str) -> bytes:
    raw = b58decode(s)
    if len(raw) < 4 or hash256(raw[:-4])[:4] != raw[-4:]:
        raise ValueError("bad checksum")
    return raw[:-4]
