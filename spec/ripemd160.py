"""RIPEMD-160 written from the paper (Dobbertin, Bosselaers, Preneel 1996), GENERATIVELY: the message
word selections are iterates of the permutation rho (left) and of rho after pi(i) = 9i+5 mod 16
(right), the rotation amounts come from the 5x16 shift table indexed by message word, the
constants are floor(2^30 * sqrt(p)) and floor(2^30 * cbrt(p)) for p = 2, 3, 5, 7.  Nothing is
copied from the repository's ripemd.py."""
import math

M32 = 0xffffffff
RHO = [7, 4, 13, 1, 10, 6, 15, 3, 12, 0, 9, 5, 2, 14, 11, 8]
PI = [(9 * i + 5) % 16 for i in range(16)]
# rotation amounts: row = round, column = MESSAGE WORD index (paper, table of shifts)
SHIFT = [
    [11, 14, 15, 12, 5, 8, 7, 9, 11, 13, 14, 15, 6, 7, 9, 8],
    [12, 13, 11, 15, 6, 9, 9, 7, 12, 15, 11, 13, 7, 8, 7, 7],
    [13, 15, 14, 11, 7, 7, 6, 8, 13, 14, 13, 12, 5, 5, 6, 9],
    [14, 11, 12, 14, 8, 6, 5, 5, 15, 12, 15, 14, 9, 9, 8, 6],
    [15, 12, 13, 13, 9, 5, 8, 6, 14, 11, 12, 11, 8, 6, 5, 5],
]


def _iroot(n, k):
    lo, hi = 0, 1
    while hi ** k <= n:
        hi *= 2
    while lo + 1 < hi:
        mid = (lo + hi) // 2
        if mid ** k <= n:
            lo = mid
        else:
            hi = mid
    return lo


def _tables():
    r_left, r_right = [], []
    perm_l = list(range(16))
    perm_r = list(PI)
    for rnd in range(5):
        r_left += perm_l
        r_right += perm_r
        perm_l = [RHO[i] for i in perm_l]
        perm_r = [RHO[i] for i in perm_r]
    s_left = [SHIFT[j // 16][r_left[j]] for j in range(80)]
    s_right = [SHIFT[j // 16][r_right[j]] for j in range(80)]
    primes = [2, 3, 5, 7]
    k_left = [0] + [_iroot(p << 60, 2) for p in primes]          # floor(2^30 * sqrt(p))
    k_right = [_iroot(p << 90, 3) for p in primes] + [0]         # floor(2^30 * cbrt(p))
    return r_left, r_right, s_left, s_right, k_left, k_right


R_L, R_R, S_L, S_R, K_L, K_R = _tables()
IV = (0x67452301, 0xefcdab89, 0x98badcfe, 0x10325476, 0xc3d2e1f0)


def f(j, x, y, z, ops):
    """the five boolean functions; `ops` supplies and/or/xor/not for ints or bit-vectors"""
    AND, OR, XOR, NOT = ops
    k = j // 16
    if k == 0:
        return XOR(XOR(x, y), z)
    if k == 1:
        return OR(AND(x, y), AND(NOT(x), z))
    if k == 2:
        return XOR(OR(x, NOT(y)), z)
    if k == 3:
        return OR(AND(x, z), AND(y, NOT(z)))
    return XOR(x, OR(y, NOT(z)))


INT_OPS = (lambda a, b: a & b, lambda a, b: a | b, lambda a, b: a ^ b, lambda a: ~a & M32)


def rol_int(x, s):
    x &= M32
    return ((x << s) | (x >> (32 - s))) & M32


def round_int(j, L, R, X):
    """one step of both lines on 32-bit ints: L = (A,B,C,D,E) left, R right"""
    A, B, C, D, E = L
    T = (rol_int((A + f(j, B, C, D, INT_OPS) + X[R_L[j]] + K_L[j // 16]) & M32, S_L[j]) + E) & M32
    L2 = (E, T, B, rol_int(C, 10), D)
    A, B, C, D, E = R
    T = (rol_int((A + f(79 - j, B, C, D, INT_OPS) + X[R_R[j]] + K_R[j // 16]) & M32, S_R[j]) + E) & M32
    R2 = (E, T, B, rol_int(C, 10), D)
    return L2, R2


def final_int(h, L, R):
    return ((h[1] + L[2] + R[3]) & M32, (h[2] + L[3] + R[4]) & M32, (h[3] + L[4] + R[0]) & M32,
            (h[4] + L[0] + R[1]) & M32, (h[0] + L[1] + R[2]) & M32)


def compress(h, block: bytes):
    X = [int.from_bytes(block[4 * i:4 * i + 4], "little") for i in range(16)]
    L = R = tuple(h)
    for j in range(80):
        L, R = round_int(j, L, R, X)
    return final_int(h, L, R)


def pad(n):
    """padding appended to a message of n bytes: 80 00^p le64(8n), total length = 0 mod 64"""
    p = (55 - n) % 64
    return b"\x80" + b"\x00" * p + ((8 * n) % (1 << 64)).to_bytes(8, "little")


def ripemd160(data: bytes) -> bytes:
    msg = data + pad(len(data))
    assert len(msg) % 64 == 0
    h = IV
    for b in range(len(msg) // 64):
        h = compress(h, msg[64 * b:64 * b + 64])
    return b"".join(x.to_bytes(4, "little") for x in h)


def selftest():
    vec = [(b"", "9c1185a5c5e9fc54612808977ee8f548b2258d31"), (b"a", "0bdc9d2d256b3ee9daae347be6f4dc835a467ffe"),
           (b"abc", "8eb208f7e05d987a9b044a8e98c6b087f15a0bfc"), (b"message digest", "5d0689ef49d2fae572b881b123a85ffa21595f36"),
           (b"abcdefghijklmnopqrstuvwxyz", "f71c27109c692c1b56bbdceb5b9d2865b3708dbc"),
           (b"abcdbcdecdefdefgefghfghighijhijkijkljklmklmnlmnomnopnopq", "12a053384a9c0c88e405a06c27dcf49ada62eb2b"),
           (b"ABCDEFGHIJKLMNOPQRSTUVWXYZabcdefghijklmnopqrstuvwxyz0123456789", "b0e20b6e3116640286ed3a87a5713079b21f5189"),
           (b"1234567890" * 8, "9b752e45573d4b39f4dbd3323cab82bf63326bfb")]
    return all(ripemd160(m).hex() == d for m, d in vec)
