"""BIP39 written from the BIP text.  The English word list is taken from the tree under test only
after its SHA-256 has been compared with the published hash of bip-0039/english.txt."""
import hashlib
import unicodedata

ENGLISH_SHA256 = "2f5eed53a4727b4bf8880d8f3f199efc90e58503646d9ff8eff3a2ed3b24dbda"


def wordlist():
    from btc_hd_wallet.bip39_wordlist import word_list
    wl = list(word_list)
    h = hashlib.sha256(("\n".join(wl) + "\n").encode()).hexdigest()
    if h != ENGLISH_SHA256 or len(wl) != 2048:
        raise AssertionError("embedded word list is not the official BIP39 english.txt")
    return wl


def indexes_from_entropy(ent: bytes):
    if len(ent) not in (16, 20, 24, 28, 32):
        raise ValueError("entropy must be 128/160/192/224/256 bits")
    cs = len(ent) // 4
    v = (int.from_bytes(ent, "big") << cs) | (int.from_bytes(hashlib.sha256(ent).digest(), "big") >> (256 - cs))
    nwords = (len(ent) * 8 + cs) // 11
    return [(v >> (11 * (nwords - 1 - j))) & 2047 for j in range(nwords)]


def mnemonic_from_entropy(ent: bytes) -> str:
    wl = wordlist()
    return " ".join(wl[i] for i in indexes_from_entropy(ent))


def entropy_from_mnemonic(m: str) -> bytes:
    wl = wordlist()
    idx = [wl.index(w) for w in m.split(" ")]
    n = len(idx)
    if n not in (12, 15, 18, 21, 24):
        raise ValueError("word count")
    v = 0
    for i in idx:
        v = (v << 11) | i
    cs = n * 11 // 33
    ent = (v >> cs).to_bytes((n * 11 - cs) // 8, "big")
    if v & ((1 << cs) - 1) != int.from_bytes(hashlib.sha256(ent).digest(), "big") >> (256 - cs):
        raise ValueError("checksum")
    return ent


def seed(mnemonic: str, passphrase: str = "") -> bytes:
    m = unicodedata.normalize("NFKD", mnemonic).encode("utf-8")
    s = ("mnemonic" + unicodedata.normalize("NFKD", passphrase)).encode("utf-8")
    return hashlib.pbkdf2_hmac("sha512", m, s, 2048, 64)
