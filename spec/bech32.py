"""Bech32 / Bech32m / segwit addresses written from the mathematics of BIP173 and BIP350:
the checksum is the remainder modulo g(x) = x^6 + 29x^5 + 22x^4 + 20x^3 + 21x^2 + 29x + 18 over
GF(32) = GF(2)[a]/(a^5 + a^3 + 1); nothing is copied from the repository's bech32.py."""

CHARSET = "qpzry9x8gf2tvdw0s3jn54khce6mua7l"
G = [29, 22, 20, 21, 29, 18]                 # coefficients of x^5 .. x^0 of g(x) (leading x^6 coefficient 1)
BECH32_CONST = 1
BECH32M_CONST = 0x2bc830a3
assert len(set(CHARSET)) == 32 and "1" not in CHARSET and CHARSET == CHARSET.lower()


def gf_mul(a, b):
    """multiplication in GF(32) = GF(2)[a]/(a^5 + a^3 + 1)"""
    r = 0
    for i in range(5):
        if (b >> i) & 1:
            r ^= a << i
    for i in range(9, 4, -1):
        if (r >> i) & 1:
            r ^= 0b101001 << (i - 5)
    return r


def pack(coeffs):
    v = 0
    for c in coeffs:
        v = (v << 5) | c
    return v


# GEN[i] = packed coefficients of (a^i * x^6 mod g): by linearity, t * (x^6 mod g) = XOR_i t_i * GEN[i]
GEN = [pack([gf_mul(1 << i, c) for c in G]) for i in range(5)]


def step(chk, v):
    """c(x) -> c(x) * x + v  mod g(x), on the packed 30-bit representation"""
    t = chk >> 25
    c = [(chk >> (5 * k)) & 31 for k in range(4, -1, -1)] + [v]       # c4 c3 c2 c1 c0 v
    return pack([c[k] ^ gf_mul(t, G[k]) for k in range(6)])


def polymod(values):
    chk = 1
    for v in values:
        chk = step(chk, v)
    return chk


def hrp_expand(hrp):
    return [ord(c) >> 5 for c in hrp] + [0] + [ord(c) & 31 for c in hrp]


def create_checksum(hrp, data, const):
    pm = polymod(hrp_expand(hrp) + list(data) + [0] * 6) ^ const
    return [(pm >> (5 * (5 - i))) & 31 for i in range(6)]


def bech32_encode(hrp, data, const):
    return hrp + "1" + "".join(CHARSET[d] for d in list(data) + create_checksum(hrp, data, const))


def bech32_decode(s):
    """-> (hrp, data-without-checksum, const) or None, per BIP173"""
    if any(ord(c) < 33 or ord(c) > 126 for c in s):
        return None
    if s.lower() != s and s.upper() != s:
        return None
    s = s.lower()
    pos = s.rfind("1")
    if pos < 1 or pos + 7 > len(s) or len(s) > 90:
        return None
    hrp, dp = s[:pos], s[pos + 1:]
    if any(c not in CHARSET for c in dp):
        return None
    data = [CHARSET.index(c) for c in dp]
    pm = polymod(hrp_expand(hrp) + data)
    if pm not in (BECH32_CONST, BECH32M_CONST):
        return None
    return hrp, data[:-6], pm


def regroup(data, frombits, tobits, pad):
    """general power-of-two base conversion; None when a value is out of range, or (pad=False) when the
    leftover bits are >= frombits or not all zero"""
    acc = bits = 0
    out = []
    for v in data:
        if v < 0 or v >> frombits:
            return None
        acc = (acc << frombits) | v
        bits += frombits
        while bits >= tobits:
            bits -= tobits
            out.append((acc >> bits) & ((1 << tobits) - 1))
        acc &= (1 << bits) - 1
    if pad:
        if bits:
            out.append((acc << (tobits - bits)) & ((1 << tobits) - 1))
    elif bits >= frombits or acc:
        return None
    return out


def legal(witver, n):
    return 0 <= witver <= 16 and 2 <= n <= 40 and (witver != 0 or n in (20, 32))


def decode(hrp, addr):
    r = bech32_decode(addr)
    if r is None or r[0] != hrp or not r[1]:
        return None
    _, data, const = r
    prog = regroup(data[1:], 5, 8, False)
    if prog is None or not legal(data[0], len(prog)):
        return None
    if const != (BECH32_CONST if data[0] == 0 else BECH32M_CONST):
        return None
    return data[0], bytes(prog)


def encode(hrp, witver, prog):
    if not legal(witver, len(prog)):
        return None
    s = bech32_encode(hrp, [witver] + regroup(list(prog), 8, 5, True), BECH32_CONST if witver == 0 else BECH32M_CONST)
    return s if decode(hrp, s) == (witver, bytes(prog)) else None


def selftest():
    ok = GEN == [0x3b6a57b2, 0x26508e6d, 0x1ea119fa, 0x3d4233dd, 0x2a1462b3]
    valid = [("BC1QW508D6QEJXTDG4Y5R3ZARVARY0C5XW7KV8F3T4", "bc", 0, "751e76e8199196d454941c45d1b3a323f1433bd6"),
             ("tb1qrp33g0q5c5txsp9arysrx4k6zdkfs4nce4xj0gdcccefvpysxf3q0sl5k7", "tb", 0, "1863143c14c5166804bd19203356da136c985678cd4d27a1b8c6329604903262"),
             ("bc1p0xlxvlhemja6c4dqv22uapctqupfhlxm9h8z3k2e72q4k9hcz7vqzk5jj0", "bc", 1, "79be667ef9dcbbac55a06295ce870b07029bfcdb2dce28d959f2815b16f81798"),
             ("BC1SW50QGDZ25J", "bc", 16, "751e")]
    for a, hrp, v, p in valid:
        ok &= decode(hrp, a) == (v, bytes.fromhex(p)) and encode(hrp, v, bytes.fromhex(p)) == a.lower()
    invalid = ["tc1qw508d6qejxtdg4y5r3zarvary0c5xw7kg3g4ty", "bc1qw508d6qejxtdg4y5r3zarvary0c5xw7kv8f3t5", "BC13W50QGDZ25J"[:3] + "1" + "3W50QGDZ25J"[1:],
               "bc1rw5uspcuh", "bc10w508d6qejxtdg4y5r3zarvary0c5xw7kw508d6qejxtdg4y5r3zarvary0c5xw7kw5rljs90",
               "BC1QR508D6QEJXTDG4Y5R3ZARVARYV98GJ9P", "tb1qrp33g0q5c5txsp9arysrx4k6zdkfs4nce4xj0gdcccefvpysxf3q0sL5k7",
               "bc1zw508d6qejxtdg4y5r3zarvaryvqyzf3du", "tb1qrp33g0q5c5txsp9arysrx4k6zdkfs4nce4xj0gdcccefvpysxf3pjxtptv", "bc1gmk9yu",
               "bc1qw508d6qejxtdg4y5r3zarvary0c5xw7kemeawh", "bc1p0xlxvlhemja6c4dqv22uapctqupfhlxm9h8z3k2e72q4k9hcz7vqh2y7hd"]
    for a in invalid:
        ok &= decode("bc", a) is None and decode("tb", a) is None
    return ok
