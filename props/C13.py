from . import contract_items, COMMON_TB, COMMON_ASSUME
META = dict(trusted_base=COMMON_TB + [
    "G1 (only for the 'concurrently from other threads' clause): under CPython's GIL list.append and attribute loads/stores are atomic; with disjoint read- and write-sets (proved sequentially) every interleaving gives the sequential results",
    "the effect / read-set scan is complete over the package's ASTs (it does not see writes made through exec/eval/setattr-by-name; none occur)"],
    assumptions=COMMON_ASSUME + [
        "NOT decidable by contracts (DESIGN §5): interleavings across threads have no model in a sequential deductive verifier; the clause is DERIVED from read/write-set disjointness under G1 and additionally exercised by a bounded threaded history check"])


def items(tier):
    return contract_items("C13", tier) + [dict(kind="scan", spec="lemmas.l_c13:scan"), dict(kind="bounded", spec="lemmas.l_c13:history")]
