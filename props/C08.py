from . import contract_items, COMMON_TB, COMMON_ASSUME
META = dict(trusted_base=COMMON_TB + [
    "R1: random.SystemRandom().getrandbits(k) returns an integer in [0, 2^k) built from ceil(k/8) bytes of os.urandom and from nothing else (CPython Lib/random.py)"],
    assumptions=COMMON_ASSUME + [
        "NOT decidable by contracts (DESIGN §5): 'every one of the ENT bits varies across fresh wallets and no two fresh wallets coincide' is a statement about the distribution produced by the operating system; it is reduced to R1 + 'the drawn integer ranges over the full [0, 2^ENT) and is encoded losslessly', which IS proved"])


def items(tier):
    return contract_items("C08", tier) + [dict(kind="scan", spec="lemmas.l_c08:scan"), dict(kind="bounded", spec="lemmas.b_c08:harness")]
