from . import contract_items, COMMON_TB, COMMON_ASSUME
META = dict(trusted_base=COMMON_TB + [
    "S5 BitStr axioms: bin(x)[2:] is the shortest binary numeral of x >= 0, zfill pads with '0' on the left, re.findall('.'*k, s) cuts s into consecutive k-character chunks, int(s, 2) is the value",
    "bytes.fromhex skips ASCII whitespace between byte pairs (HexStr axiom)"],
    assumptions=COMMON_ASSUME + ["the word at index i is an opaque term WORD(i); injectivity comes from the exhaustive distinctness check of the real list"])


def items(tier):
    return contract_items("C04", tier) + [dict(kind="enum", spec="lemmas.l_c04:wordlist")]
