from . import contract_items, COMMON_TB, COMMON_ASSUME
META = dict(trusted_base=COMMON_TB + [
    "S-DecTok: an arbitrary '/'-free token is abstracted by (empty?, class of last character, partial results of int() on the token and on token[:-1]); str(n)/int() round-trip on canonical decimals; decimal renderings contain no '/', \"'\" or 'h'"],
    assumptions=COMMON_ASSUME + ["paths with more than 7 '/' are not explored separately (they take the same code path as 6 and 7: list positions 1..5 only)"])


def items(tier):
    return contract_items("C17", tier)
