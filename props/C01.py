from . import contract_items, COMMON_TB, COMMON_ASSUME
META = dict(trusted_base=COMMON_TB, assumptions=COMMON_ASSUME)


def items(tier):
    return contract_items("C01", tier)
