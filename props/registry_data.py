"""What each delivered check claims (drives MANIFEST.json)."""
PROOF_TEXT = ("machine-checked contracts (pre/postconditions, exceptional postconditions, frame conditions, loop invariants) on the real "
              "functions of /repo, re-read from the working tree on every run; every obligation is a z3 validity query over all inputs "
              "(or a complete enumeration of a finite domain). ")
NOTE = ("Trusted: z3; the pyvc encoding of the Python subset; assumed contracts of hashlib/hmac/ecdsa/unicodedata/json/argparse "
        "(uninterpreted, same symbols in code and spec); only the ecdsa back end (the one that runs here) is verified. "
        "Paths outside the verified subset are decided by a labelled bounded stand-in and reported under proof_lost, never as proved.")

D = {
 "C01": dict(text="CKDpriv (data layout for both sides of 2^31, (IL+k) mod n as 32 bytes, chain code, depth/index/parent, fingerprint, 78-byte serialisation, Base58Check strings) proved for all parents/indexes/PRF outputs; derive_path as the fold of ckd for lengths 0..6.",
             technique="deductive: sidecar contracts + AST symbolic execution + z3 (HMAC/EC uninterpreted)"),
 "C02": dict(text="CKDpub contract (hardened refused before any key material is used, IL*G + K_par, infinity/IL>=n errors) and step lemma neuter(CKDpriv) = CKDpub(neuter) from the two contracts and the group axioms; paths by the fold.",
             technique="deductive: contracts on both ckd functions + group-homomorphism lemma in z3"),
 "C03": dict(text="seed = PBKDF2 term identity (NFKD, 'mnemonic' salt prefix, 2048 rounds, 64 bytes); master = halves of HMAC('Bitcoin seed'); all constructors thread their arguments to the same master key; the network flag does not occur in key material.",
             technique="deductive: term identities over uninterpreted NFKD/UTF-8/PBKDF2/HMAC + constructor contracts"),
 "C06": dict(text="bip44/49/84 contracts: account node at m/P'/coin'/account', SLIP-132 account keys, rows = map over the interval (generic element), path/address/SEC/WIF of one row from the same node; generate/json/wasabi wiring.",
             technique="deductive: contracts with generic-element (map) treatment of symbolic-length comprehensions"),
 "C07": dict(text="78-byte layout, _parse slices, Version table exhaustively (12 constants + symbolic other), from_extended_key type/network from the prefix, no private scalar in public serialisations, round trip.",
             technique="deductive: rope (numeric segment) layout proofs + exhaustive version table"),
 "C09": dict(text="PrivateKey accepts exactly 32-byte/int scalars in [1,n-1] (all lengths 0..41), WIF payloads for 4 flavours, from_wif round trip with the first-character lemma, SEC parse/sec round trip and rejection per the assumed ecdsa contract.",
             technique="deductive: contracts over assumed ecdsa contracts + LIA first-character lemma"),
 "C12": dict(text="five BIP85 applications: fully hardened path, HMAC('bip-entropy-from-k') of the child key, truncation/split per application for all word counts, byte counts 16..64 and password lengths 20..86 (exhaustive), parameter/index range errors, invalid-key errors.",
             technique="deductive: contracts with ckd by contract (modular), exhaustive parameter enumeration"),
 "C14": dict(text="public version => PubKeyNode master, watch_only, no BIP85, prv None, WIF column None, hardened derivation and account generation refused; addresses depend on public data only.",
             technique="deductive: contracts on watch-only paths"),
 "C15": dict(text="paranoia_mode on an ARBITRARY input dictionary (extra sections/fields, rows of any shape and symbolic number): exactly the whitelisted leaves, identical objects, nothing from a secret position; main() emits the filtered value through exactly one channel.",
             technique="deductive: contract over arbitrary dictionaries with leaf provenance + main wiring over summarised callees"),
 "C16": dict(text="every emitter's network tag is a function of the wallet/node flag (addresses 00/6f, 05/c4, bc/tb; WIF 80/ef; SLIP-132 table; coin type; Wasabi key); constructors establish wallet.testnet == master.testnet; children inherit it.",
             technique="deductive: network-tag postconditions on all emitting functions"),
 "C17": dict(text="format->parse identity for 0..5 levels, both markers and roots; arbitrary text via the DecTok abstraction (wrong root, non-decimal/empty/out-of-range components raise or denote their decimal value); by_path = fold of ckd; known finding: levels beyond the fifth are dropped.",
             technique="deductive: structured-string symbolic execution + token abstraction of int()"),
 "C18": dict(text="with the PRF uninterpreted every output is a case: master_key, both ckd functions and BIP85 wif/xprv raise exactly when IL >= n, the key is zero or the point is at infinity; no child is appended on error paths.",
             technique="deductive: exceptional postconditions with uninterpreted HMAC"),
 "C19": dict(text="varint shortest form and range errors; minimal push for every element length 1..521 (symbolic content); serialise/parse round trip for every single-element length and a family of shapes; truncation soundness by a loop invariant over a stream of symbolic size.",
             technique="deductive: per-length families + inductive loop invariant on Script.parse"),
 "C20": dict(text="validators accept exactly their ranges (token abstraction), file_ refusals over filesystem oracle predicates, main(): command->constructor wiring, generate(account, interval), paranoia filter, exactly one output channel; known finding: --interval accepts values above 2^31.",
             technique="deductive: validator contracts + main wiring over summarised callees; process level bounded"),
}
D["C10"] = dict(text="loop invariants on encode_base58 / decode_base58 over symbolic-length sequences ('1'^lz ++ digits of the value; value accumulation, alphabet check, pad count over s[:-1]); checksum decoder returns the payload iff the last four decoded bytes are the first four of the double SHA-256 (incl. decoded length < 4); code-independent inverse lemmas by induction schema; round trip composed from the contracts.",
                technique="deductive: inductive loop invariants over z3 sequences + induction-schema lemmas")
D["C04"] = dict(text="mnemonic_from_entropy: for the five sizes every word is the word at the j-th 11-bit group of ENT || SHA-256(ENT)[:ENT/32 bits] (one obligation per word, bit-string abstraction), single-space separators, word counts 12..24; all other sizes (incl. whitespace hex) rejected; word list pinned by exhaustive checks and the published hash.",
                technique="deductive: bit-string abstraction + per-word LIA obligations; exhaustive constant check of the word list")
D["C05"] = dict(text="five address kinds = spec encodings of the standard scripts (templates 0014/0020/a914..87/76a914..88ac, 1-of-1 witness script) for both networks; script builders; HASH160 = RIPEMD160(SHA256); pure-Python RIPEMD-160 proved against a generative spec: rol/f for any integer, all 80 rounds for every state (low-bits mode), feed-forward, padding for EVERY length < 2^61, block folds by loop invariants.",
                technique="deductive: low-bits bit-vector VCs per round + LIA/sequence padding VC + loop invariants")
D["C08"] = dict(text="module state: bip39.random is a SystemRandom bound once and never rebound (AST + live object); mnemonic_from_entropy_bits / new_wallet / from_entropy_bits draw exactly once, ENT = 32N/3 bits, full range [0, 2^ENT), from that object, and every word of the mnemonic encodes the drawn integer; invalid sizes draw nothing; package-wide scan: no other randomness/clock source. The distributional clauses are reduced to assumption R1 (stated, not proved).",
                technique="deductive: effect-recording model of the RNG call + data-flow postcondition; AST scans for module state")
D["C13"] = dict(text="frame conditions (modifies only self.children) on every derivation/serialisation/address function, each proved with an ARBITRARY children list at entry (results cannot depend on it); package-wide effect scan: children is never read, no attribute writes after construction, no shared-state mutation; derive_path is the fold of ckd; generate_children is the map over the interval; address generator step contract (index' = index + (sent or 1)); thread clause derived under the GIL assumption + bounded threaded histories.",
                technique="deductive: frame/ownership conditions + whole-package effect scan + generator step contract; bounded history check for schedules")
D["C11"] = dict(text="bech32_polymod = fold of the GF(32) step for value sequences of any length (loop invariant, generator constants computed from g(x)); checksum create/verify; checksum lemma for every prefix state; convertbits regrouping and strictness for every length, 8->5->8 round trip; segwit decode rules (same prefix, strict padding, 2..40 bytes, version <= 16, v0 => 20/32, constant per version) for every data length; encode returns None exactly for illegal (version, length); string-level rules of bech32_decode on arbitrary characters; Bech32-layer round trip; error detection by complete enumeration through linearity.",
                technique="deductive: bit-vector VCs + loop invariant + per-length families; complete enumeration of error patterns via linearity")
