from . import contract_items, COMMON_TB, COMMON_ASSUME
META = dict(trusted_base=COMMON_TB + ["io.BytesIO.read(n) returns min(n, remaining) bytes and advances the position by that many (SymStream model)"],
            assumptions=COMMON_ASSUME + ["list-level round trip for scripts of any length = step contract of raw_serialize (generic command, any accumulated prefix) + step contract of Script.parse (any loop state) + lemmas.l_c19 (header inverse, exit by the induction schema); the induction rule over the number of commands is the meta-level step. Additionally checked end to end for every single-element length 1..520 and a family of multi-element shapes."])


def items(tier):
    return contract_items("C19", tier) + [dict(kind="lemma", spec="lemmas.l_c19:fold"), dict(kind="lemma", spec="lemmas.l_c19:canary")]
