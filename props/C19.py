from . import contract_items, COMMON_TB, COMMON_ASSUME
META = dict(trusted_base=COMMON_TB + ["io.BytesIO.read(n) returns min(n, remaining) bytes and advances the position by that many (SymStream model)"],
            assumptions=COMMON_ASSUME + ["round trip is proved for every single-element length 1..520 and for a fixed family of multi-element shapes (symbolic contents), not for scripts of arbitrary length"])


def items(tier):
    return contract_items("C19", tier)
