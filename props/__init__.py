"""Registry of delivered property checks (drives MANIFEST.json and vcheck)."""
import importlib

CONTRACT_MODULES = ["contracts.c_bip32", "contracts.c_keys", "contracts.c_wallet_utils", "contracts.c_base_wallet",
                    "contracts.c_bip85", "contracts.c_paper_wallet", "contracts.c_main", "contracts.c_script", "contracts.c_base58", "contracts.c_bip39", "contracts.c_helper", "contracts.c_ripemd", "contracts.c_bech32"]

COMMON_TB = [
    "H1-H4: hashlib/hmac/pbkdf2/unicodedata are deterministic total functions with the standard output lengths (uninterpreted, same symbols in code and spec)",
    "E1-E6: assumed contracts of ecdsa 0.19 (SigningKey.from_string range check, SEC1 encodings, prime-order group axioms)",
    "B1-B5: int.to_bytes/from_bytes are positional base-256 (numeric ropes)",
]
COMMON_ASSUME = [
    "the ecdsa back end is the one that runs here (pysecp256k1's native library is absent): the pysecp256k1 branches are dead in this configuration and NOT verified",
    "Python integers are mathematical (exact); no machine arithmetic is involved outside ripemd.py/bech32.py",
    "U1: text inputs (mnemonic, passphrase, path strings) are well-formed Unicode without lone surrogate code points; for such input str.encode('utf-8') raises UnicodeEncodeError (the CLI then ends with a traceback, status 1 and no output), which the contracts do not model",
]


def contract_items(pid, tier="thorough", **extra):
    items = []
    for m in CONTRACT_MODULES:
        mod = importlib.import_module(m)
        for c in mod.CONTRACTS:
            if pid in getattr(c, "props", ()):
                if getattr(c, "tier", "quick") == "thorough" and tier != "thorough":
                    continue
                it = dict(kind="contract", spec=f"{m}:{type(c).__name__}")
                only = getattr(c, "clauses_for", {}).get(pid)
                if only:
                    it["only"] = list(only) + ["frame"]
                it.update(extra)
                items.append(it)
        for c in getattr(mod, "CANARIES", []):
            if pid in getattr(c, "props", ()):
                items.append(dict(kind="canary", spec=f"{m}:{type(c).__name__}"))
    # the assumed library contracts of the trusted base, checked at run time against the installed libraries
    items.append(dict(kind="bounded", spec="lemmas.l_assume:conformance"))
    return items


def _registry():
    from .registry_data import D, PROOF_TEXT, NOTE
    import os
    reg = {}
    for pid, d in D.items():
        if os.path.exists(os.path.join(os.path.dirname(__file__), pid + ".py")):
            reg[pid] = dict(delivered=True, level_text=PROOF_TEXT + d["text"], level_note=NOTE, technique=d["technique"])
    return reg


REGISTRY = _registry()
