"""Registry of delivered property checks (drives MANIFEST.json and vcheck)."""
REGISTRY = {}
