from . import contract_items, COMMON_TB, COMMON_ASSUME
META = dict(trusted_base=COMMON_TB + [
    "bit-vector mode with width tracking for the bounded integers of bech32.py (every shift that could leave 32 bits makes the value inexact and blocks >> / comparisons)",
    "S2: str.lower/upper act on A-Z / a-z only for characters 33..126 (the function rejects other characters first); str.rfind/find/in on a constant table",
    "the fold over value lists of symbolic length (POLY) is defined by its unfolding; the composition of the per-step proofs is the induction (meta-level)",
    "GF(32) algebra of the spec (spec/bech32.py) is validated against the BIP173/BIP350 vectors; the generator constants are COMPUTED from g(x), not copied"],
    assumptions=COMMON_ASSUME + [
        "string-level rules of bech32_decode are proved for every string of length 0..11 (quick; 12, 14, 20 in the thorough tier) with arbitrary characters; the encode->decode round trip of the Bech32 layer for prefixes bc/tb and 19 data lengths up to the 90-character limit; arbitrary prefixes are covered by the per-state lemmas (every prefix state) and a bounded differential run",
        "error detection is decided by COMPLETE enumeration through linearity over 89 positions (every length the library can emit)"])


def items(tier):
    return contract_items("C11", tier) + [dict(kind="lemma", spec="lemmas.l_c11:bv_lemmas"), dict(kind="lemma", spec="lemmas.l_c11:convertbits_roundtrip"),
                                          dict(kind="enum", spec="lemmas.l_c11:error_detection"), dict(kind="bounded", spec="lemmas.b_c11:differential")]
