from . import contract_items, COMMON_TB, COMMON_ASSUME
META = dict(trusted_base=COMMON_TB + [
    "low-bits mode: + - & | ^ ~ << commute with reduction mod 2^32 (used for the unbounded intermediates of ripemd.py); >>, to_bytes only on values proved to lie in [0, 2^32)",
    "the induction over the 80 rounds / over the message blocks (each step is discharged for every state, the composition is meta-level)",
    "Base58Check and segwit strings are injective opaque terms (C10, C11)"],
    assumptions=COMMON_ASSUME + ["SHA-256 uninterpreted; RIPEMD-160 is specified by the generative spec (validated against the paper's vectors and OpenSSL)"])


def items(tier):
    return contract_items("C05", tier) + [dict(kind="enum", spec="lemmas.b_c05:spec_selftest"), dict(kind="bounded", spec="lemmas.b_c05:sweep")]
