from . import contract_items, COMMON_TB, COMMON_ASSUME
META = dict(trusted_base=COMMON_TB, assumptions=COMMON_ASSUME + [
    "Base58Check strings are opaque terms B58CHK_n(payload); decode(encode(p)) = p is C10's lemma, used here as the callee contract"])


def items(tier):
    return contract_items("C09", tier) + [dict(kind="lemma", spec="lemmas.l_c09:first_char")]
