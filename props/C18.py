"""C18 — invalid children are reported, never returned."""
META = dict(
    trusted_base=["H1-H4: HMAC-SHA512 is an uninterpreted total function with 64-byte output (every output is a case)",
                  "E1-E6: assumed contracts of ecdsa 0.19 (SigningKey.from_string range check, group axioms)"],
    assumptions=["the ecdsa back end is the one that runs (pysecp256k1 native library absent): the pysecp256k1 branch is not verified"],
)


def items(tier):
    return [
        dict(kind="contract", spec="contracts.c_bip32:PrvCkd", only=["raises.", "ensures.no_child_appended_on_error", "frame"]),
    ]
