"""C18 — invalid children are reported, never returned."""
from . import contract_items, COMMON_TB, COMMON_ASSUME
META = dict(trusted_base=COMMON_TB, assumptions=COMMON_ASSUME + [
    "every HMAC-SHA512 output is a case (uninterpreted PRF), so the 2^-127 corners are ordinary symbolic cases"])


def items(tier):
    return contract_items("C18", tier)
