from . import contract_items, COMMON_TB, COMMON_ASSUME
META = dict(trusted_base=COMMON_TB + [
    "S-axioms: hex(n)[2:] zero-padded to even length and bytes.fromhex give the minimal big-endian bytes of n (00 for 0); int.from_bytes ignores leading zero bytes",
    "z3 sequence theory; the induction rule over n / string length used by the Layer-2 lemmas (base and step are discharged, the rule is meta-level)",
    "alphabet membership/index are table abstractions whose point-wise facts are enumerated from the real constant"],
    assumptions=COMMON_ASSUME + ["SHA-256 is an uninterpreted function on byte sequences with 32-byte output"])


def items(tier):
    return contract_items("C10", tier) + [dict(kind="lemma", spec="lemmas.l_c10:lemmas"), dict(kind="lemma", spec="lemmas.l_c10:roundtrip"), dict(kind="lemma", spec="lemmas.l_c10:roundtrip_inverse"),
                                    dict(kind="lemma", spec="lemmas.l_c10:canary"), dict(kind="bounded", spec="lemmas.b_c10:differential")]
