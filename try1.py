import sys, os, json, time
sys.path.insert(0, os.environ.get("VERIF_REPO", "/repo"))
sys.path.insert(0, "/verif")
import btc_hd_wallet
print(btc_hd_wallet.__file__)
from pyvc.verify import verify_contract
from contracts import c_bip32
for c in c_bip32.CONTRACTS:
    t=time.time()
    r = verify_contract(c)
    print(c.target, "paths", r["paths"], "wall %.2f"%r["wall"])
    from collections import Counter
    print(Counter(o["verdict"] for o in r["obligations"]))
    for o in r["obligations"]:
        if o["verdict"] != "PROVED":
            print(" ", o["name"], o["verdict"], o.get("reason",""), o.get("outcome"), o.get("model"), o.get("frame_violation"))
            if o.get("tb"): print(o["tb"])
