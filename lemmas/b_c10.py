"""C10 bounded stand-in (labelled bounded, never counted as proved): the real Base58 functions against the
independent spec on a seeded corpus - byte strings of length 1..128 with 0..len leading zeros; strings over
the alphabet plus look-alikes obtained from valid encodings by substitution, insertion, deletion, '1'-prefixing."""
import random
from spec import base58 as SB


def differential(item):
    import btc_hd_wallet.helper as h
    rng = random.Random(item.get("seed", 0) * 1000003 + 10)
    n = 1500 if item.get("tier") == "quick" else 20000
    evals = 0
    bad = None

    def check(cond, what):
        nonlocal bad
        if not cond and bad is None:
            bad = what
    look = SB.ALPHABET + "0OIl"
    # boundary corpus: strings too short to hold a checksum, in particular truncated checksums of short payloads
    for plen in range(0, 3):
        for p in ([b""] if plen == 0 else [bytes([a]) * plen for a in (0, 1, 0x80, 0xff)]):
            for k in range(0, 4):
                raw = p + SB.hash256(p)[:k]
                if not raw:
                    continue
                s = SB.b58encode(raw)
                try:
                    h.decode_base58_checksum(s)
                    if len(raw) < 4 or SB.hash256(raw[:-4])[:4] != raw[-4:]:
                        check(False, f"decode_base58_checksum({s!r}) accepted {len(raw)} decoded bytes (too short / truncated checksum)")
                except Exception:
                    pass
                evals += 1
    for i in range(n):
        ln = rng.choice([1, 2, 3, 4, 5, 20, 21, 25, 32, 33, 37, 38, 78, 82, 128, rng.randrange(1, 129)])
        z = rng.choice([0, 0, 1, 2, ln - 1, ln, rng.randrange(0, ln + 1)])
        d = bytes(z) + bytes(rng.randrange(256) for _ in range(ln - z))
        e = h.encode_base58(d)
        check(e == SB.b58encode(d), f"encode_base58({d.hex()}) = {e!r}")
        check(h.decode_base58(e) == d, f"decode_base58(encode_base58({d.hex()})) != identity")
        ec = h.encode_base58_checksum(d)
        check(ec == SB.b58check_encode(d), f"encode_base58_checksum({d.hex()})")
        check(h.decode_base58_checksum(ec) == d, f"decode_base58_checksum(encode_base58_checksum({d.hex()}))")
        # mutated strings: acceptance must coincide with the spec decoder, value too
        s = list(rng.choice([e, ec]))
        op = rng.randrange(5)
        if op == 0 and s:
            s[rng.randrange(len(s))] = rng.choice(look)
        elif op == 1:
            s.insert(rng.randrange(len(s) + 1), rng.choice(look))
        elif op == 2 and s:
            del s[rng.randrange(len(s))]
        elif op == 3:
            s = ["1"] * rng.randrange(1, 4) + s
        else:
            s = s[:rng.randrange(0, 4)]
        s = "".join(s)
        for real, spec in ((h.decode_base58, SB.b58decode), (h.decode_base58_checksum, SB.b58check_decode)):
            if not s:
                continue
            try:
                want = ("ok", spec(s))
            except ValueError:
                want = ("err", None)
            try:
                got = ("ok", real(s))
            except Exception:
                got = ("err", None)
            if spec is SB.b58decode and want[0] == "ok" and set(s) == {"1"}:
                pass
            check(got == want, f"{real.__name__}({s!r}) = {got}, spec {want}")
            evals += 1
        if s and all(c in SB.ALPHABET for c in s):
            check(h.encode_base58(h.decode_base58(s)) == s, f"encode_base58(decode_base58({s!r})) != identity")
        evals += 4
        if bad:
            break
    o = dict(name="C10.bounded.differential", kind="bounded", backend="bounded", verdict="HELD" if bad is None else "VIOLATED",
             evaluations=evals, bound=f"{n} seeded cases (seed {item.get('seed', 0)}), byte strings up to 128 bytes, single mutations",
             clause="C10.bounded.differential")
    if bad:
        o["detail"] = bad
        o["confirmed"] = True
        o["replay"] = dict(confirmed=True, failed=[bad])
    return [o]
