"""C09 lemma: the compressed-WIF detection by first character is correct for the whole scalar range."""
import z3
from .util import prove, held
from spec import base58 as SB


def first_char(item):
    import btc_hd_wallet.helper as helper
    out = []
    # the alphabet constant of the tree under test is the Base58 alphabet (constant check)
    out.append(held("C09.lemma.alphabet_constant", helper.BASE58_ALPHABET == SB.ALPHABET,
                    statement="helper.BASE58_ALPHABET == the Bitcoin Base58 alphabet",
                    detail=helper.BASE58_ALPHABET,
                    witness_code="def still_fails():\n    import btc_hd_wallet.helper as h\n    return h.BASE58_ALPHABET != '123456789ABCDEFGHJKLMNPQRSTUVWXYZabcdefghijkmnopqrstuvwxyz'\n"))
    A = SB.ALPHABET
    v = z3.Int("v")
    cases = [  # (total bytes, first byte, number of base58 digits, allowed first characters)
        (38, 0x80, 52, "KL"), (38, 0xef, 52, "c"), (37, 0x80, 51, "5"), (37, 0xef, 51, "9")]
    for nbytes, fb, nd, chars in cases:
        lo, hi = fb * 256 ** (nbytes - 1), (fb + 1) * 256 ** (nbytes - 1)
        rng = z3.And(v >= lo, v < hi)
        msd = v / (58 ** (nd - 1))
        goal = z3.And(v >= 58 ** (nd - 1), v < 58 ** nd, z3.Or(*[msd == A.index(c) for c in chars]))
        out.append(prove(f"C09.lemma.first_char.{nbytes}.{fb:02x}", z3.Implies(rng, goal),
                         statement=f"every {nbytes}-byte string starting {fb:02x} has {nd} Base58 digits, the first one in {chars!r} "
                                   f"(with encode_base58(d) = '1'^lz ++ digits58(be(d)), C10, and a non-zero first byte)"))
    return out
