"""C08 module-state and source-scan obligations (complete over the package's ASTs)."""
import ast
import os
from .util import held

DENY_NAMES = {"time", "uuid", "secrets", "getpid", "urandom", "getrandbits", "randrange", "randint", "choice", "shuffle", "sample",
              "seed", "getstate", "setstate", "id", "hash", "perf_counter", "monotonic", "token_bytes", "token_hex", "randbits", "randbytes"}


def _pkg_files():
    import btc_hd_wallet
    d = os.path.dirname(btc_hd_wallet.__file__)
    for fn in sorted(os.listdir(d)):
        if fn.endswith(".py"):
            yield fn, os.path.join(d, fn)


def scan(item):
    import random
    import btc_hd_wallet.bip39 as bip39
    out = []
    W1 = "def still_fails():\n    import random, btc_hd_wallet.bip39 as b\n    return type(b.random) is not random.SystemRandom\n"
    out.append(held("C08.state.random_is_SystemRandom", type(bip39.random) is random.SystemRandom,
                    statement="the live binding btc_hd_wallet.bip39.random is a random.SystemRandom instance (OS CSPRNG, not seedable)",
                    detail=repr(type(bip39.random)), witness_code=W1, kind="scan"))
    # the module-level binding and the absence of any other write to it, anywhere in the package
    binds, rebinds, users = [], [], []
    refs = []
    for fn, path in _pkg_files():
        tree = ast.parse(open(path).read())
        for node in ast.walk(tree):
            if fn == "bip39.py" and isinstance(node, ast.Assign) and any(isinstance(t, ast.Name) and t.id == "random" for t in node.targets):
                binds.append(ast.dump(node.value))
            if isinstance(node, ast.Global) and "random" in node.names:
                rebinds.append(f"{fn}:{node.lineno} global random")
            if isinstance(node, (ast.Assign, ast.AugAssign)):
                tg = node.targets if isinstance(node, ast.Assign) else [node.target]
                for t in tg:
                    if isinstance(t, ast.Attribute) and t.attr == "random":
                        rebinds.append(f"{fn}:{node.lineno} assignment to .random")
            # every use of a randomness / clock / identity source in the package
            if isinstance(node, ast.Attribute) and node.attr in DENY_NAMES:
                base = node.value.id if isinstance(node.value, ast.Name) else ast.dump(node.value)[:40]
                refs.append((fn, node.lineno, f"{base}.{node.attr}"))
            if isinstance(node, ast.Call) and isinstance(node.func, ast.Name) and node.func.id in ("id", "hash"):
                refs.append((fn, node.lineno, node.func.id + "()"))
            if isinstance(node, (ast.Import, ast.ImportFrom)):
                mods = [a.name for a in node.names] + ([node.module] if isinstance(node, ast.ImportFrom) and node.module else [])
                for m in mods:
                    if m.split(".")[0] in ("time", "uuid", "secrets", "datetime"):
                        refs.append((fn, node.lineno, "import " + m))
    # the binding is a no-argument call of something called SystemRandom, however it was imported (`random.SystemRandom()`,
    # `SystemRandom()` after `from random import SystemRandom`, an alias module): the LIVE object is checked above
    def _is_sysrandom_call(dump):
        try:
            node = ast.parse("x = 0").body[0]
        except Exception:
            return False
        return ("SystemRandom" in dump) and dump.startswith("Call(") and "args=[]" in dump and "keywords=[]" in dump
    out.append(held("C08.state.module_binding", len(binds) == 1 and _is_sysrandom_call(binds[0]) and not rebinds,
                    statement="bip39.py binds `random` exactly once at module level, to a no-argument SystemRandom() call; nothing in the package rebinds it",
                    detail=dict(binds=binds, rebinds=rebinds), kind="scan",
                    witness_code="def still_fails():\n    import random, btc_hd_wallet.bip39 as b\n    return type(b.random) is not random.SystemRandom\n"))
    allowed = [("bip39.py", "random.getrandbits")]
    extra = [r for r in refs if (r[0], r[2]) not in allowed]
    uses = [r for r in refs if (r[0], r[2]) in allowed]
    out.append(held("C08.scan.no_other_entropy_or_clock_source", not extra and len(uses) >= 1,
                    statement="the only randomness / clock / identity source referenced anywhere in the package is bip39.random.getrandbits (one call site)",
                    detail=dict(extra=extra, uses=uses), kind="scan",
                    witness_code="def still_fails():\n    return True\n"))
    # the two SOURCE scans are syntactic: a harmless re-spelling (another import form, a second legitimate call site, a
    # clock used for something else) also changes them.  A dirty scan is therefore not a violation by itself: the
    # proof is lost and the behavioural stand-in lemmas.b_c08 (recorded / substituted OS source) decides.
    for o in out:
        if o["name"] in ("C08.state.module_binding", "C08.scan.no_other_entropy_or_clock_source") and o["verdict"] != "PROVED":
            o["verdict"] = "UNDECIDED"
            o["needs_standin"] = True
            o["reason"] = "source scan: " + str(o.get("detail"))[:300]
            o.pop("confirmed", None)
    return out
