"""Layer-2 lemma helpers: each lemma is a named z3 validity query (or a complete enumeration)."""
import time
import z3


def prove(name, goal, hyps=(), timeout_ms=20000, statement=None):
    t0 = time.time()
    hyps = list(hyps)
    if hyps:
        # vacuity guard: the hypotheses alone must not be contradictory
        s0 = z3.Solver()
        s0.set("timeout", 5000)
        for h in hyps:
            s0.add(h)
        if s0.check() == z3.unsat:
            return dict(name=name, kind="lemma", backend="z3", time=time.time() - t0, statement=statement or name,
                        verdict="ERROR", reason="vacuous lemma: hypotheses are contradictory")
    s = z3.Solver()
    s.set("timeout", timeout_ms)
    s.set("random_seed", 7)
    for h in hyps:
        s.add(h)
    s.add(z3.Not(goal))
    from pyvc.verify import hard_check
    r = hard_check(s, timeout_ms)
    d = dict(name=name, kind="lemma", backend="z3", time=time.time() - t0, statement=statement or name)
    if r == z3.unsat:
        d["verdict"] = "PROVED"
    elif r == z3.sat:
        d["verdict"] = "REFUTED"
        d["model"] = {str(k): str(s.model()[k]) for k in s.model().decls()[:20]}
        d["clause"] = name
    else:
        d["verdict"] = "UNDECIDED"
        try:
            d["reason"] = "solver: " + s.reason_unknown()
        except z3.Z3Exception:
            d["reason"] = "solver: interrupted"
    return d


def held(name, ok, statement=None, backend="enum", detail=None, witness_code=None, **kw):
    d = dict(name=name, kind="enum", backend=backend, time=0.0, statement=statement or name,
             verdict="PROVED" if ok else "REFUTED", clause=name)
    if not ok:
        d["detail"] = detail
        d["confirmed"] = True
        d["witness_code"] = witness_code
    d.update(kw)
    return d
