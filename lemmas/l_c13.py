"""C13: package-wide effect / read-set scan (complete over the ASTs of the package) and a bounded history
check (labelled bounded): random API call sequences on SHARED wallet and node objects, also from several
threads, compared with a stateless recomputation on fresh objects."""
import ast
import os
import random
import threading
from .util import held

MUTATORS = {"append", "extend", "insert", "pop", "remove", "clear", "sort", "reverse", "update", "setdefault", "popitem", "add", "discard"}


def _pkg_files():
    import btc_hd_wallet
    d = os.path.dirname(btc_hd_wallet.__file__)
    for fn in sorted(os.listdir(d)):
        if fn.endswith(".py"):
            yield fn, os.path.join(d, fn)


def _soft(o):
    """a dirty scan is not a violation by itself (a CORRECT memoisation would also read children): the proof is
    lost and the bounded history check decides"""
    if o["verdict"] != "PROVED":
        o["verdict"] = "UNDECIDED"
        o["needs_standin"] = True
        o["reason"] = "effect scan: " + str(o.get("detail"))[:300]
        o.pop("confirmed", None)
    return o


def scan(item):
    """write-sets and the read-set of `.children` for EVERY function of the package (not only those under contract)"""
    attr_writes, children_reads, global_writes, mutator_calls, class_state = [], [], [], [], []
    for fn, path in _pkg_files():
        tree = ast.parse(open(path).read())
        for cls_or_fn in ast.walk(tree):
            if not isinstance(cls_or_fn, ast.FunctionDef):
                continue
            f = cls_or_fn
            locals_ = set()
            for n in ast.walk(f):
                if isinstance(n, ast.Name) and isinstance(n.ctx, ast.Store):
                    locals_.add(n.id)
            params = {a.arg for a in f.args.args + f.args.kwonlyargs}
            for n in ast.walk(f):
                if isinstance(n, ast.Global):
                    global_writes.append(f"{fn}:{f.name}:global {n.names}")
                if isinstance(n, ast.Attribute) and isinstance(n.ctx, ast.Store):
                    attr_writes.append((fn, f.name, ast.unparse(n)))
                if isinstance(n, ast.Subscript) and isinstance(n.ctx, ast.Store):
                    base = n.value
                    root = base
                    while isinstance(root, (ast.Attribute, ast.Subscript)):
                        root = root.value
                    if isinstance(root, ast.Name) and root.id not in locals_:
                        global_writes.append(f"{fn}:{f.name}:{ast.unparse(n)} (store into non-local container)")
                if isinstance(n, ast.Attribute) and n.attr == "children" and isinstance(n.ctx, ast.Load):
                    children_reads.append((fn, f.name, n))
                if isinstance(n, ast.Call) and isinstance(n.func, ast.Attribute) and n.func.attr in MUTATORS:
                    root = n.func.value
                    txt = ast.unparse(n.func.value)
                    while isinstance(root, (ast.Attribute, ast.Subscript)):
                        root = root.value
                    if isinstance(root, ast.Name) and (root.id not in locals_ or root.id in ("self", "cls")) :
                        mutator_calls.append((fn, f.name, txt + "." + n.func.attr))
        # class-level / module-level mutable containers that functions could share
    out = []
    # 1. `.children` is only ever appended to (never read for its content)
    bad_reads = []
    for fn, fname, node in children_reads:
        bad_reads.append((fn, fname))
    appends = [(a, b, c) for a, b, c in mutator_calls if c.endswith("children.append")]
    # every Load of .children must be the receiver of .append
    n_loads = len(children_reads)
    ok_children = n_loads == len(appends)
    out.append(held("C13.scan.children_never_read", ok_children, kind="scan",
                    statement="no function of the package reads node.children (every load of .children is the receiver of .append): derived results cannot depend on earlier derivations",
                    detail=dict(loads=[(a, b) for a, b, _ in children_reads], appends=appends),
                    witness_code="def still_fails():\n    return True\n"))
    # 2. attribute stores: constructors + the three known post-construction writes on objects created in the same call
    allowed = {("bip32.py", "_parse", "key.parsed_version"), ("base_wallet.py", "from_mnemonic", "wallet.mnemonic"),
               ("base_wallet.py", "from_mnemonic", "wallet.password")}
    extra = [w for w in attr_writes if w[1] != "__init__" and w not in allowed]
    out.append(held("C13.scan.no_attribute_writes_after_construction", not extra, kind="scan",
                    statement="outside constructors the only attribute stores are parsed_version in _parse and mnemonic/password in from_mnemonic, each on an object created in the same call",
                    detail=extra, witness_code="def still_fails():\n    return True\n"))
    # 3. mutator calls on non-local objects: the two children.append sites and the merkle helper
    allowed_mut = {("bip32.py", "ckd", "self.children.append"), ("helper.py", "merkle_parent_level", "hashes.append")}
    extra_m = [m for m in mutator_calls if m not in allowed_mut]
    out.append(held("C13.scan.no_other_shared_state_mutation", not extra_m and not global_writes, kind="scan",
                    statement="no function mutates module-level, class-level or argument containers other than self.children.append in the two ckd functions (and hashes.append in the unused merkle helper)",
                    detail=dict(mutators=extra_m, globals=global_writes), witness_code="def still_fails():\n    return True\n"))
    return [_soft(o) for o in out]


MNEMONIC = "legal winner thank year wave sausage worth useful legal winner thank yellow"
MNEMONIC2 = "letter advice cage absurd amount doctor acoustic avoid letter advice cage above"
ENTROPY_PATHS = ["m/83696968'/0'/0'", "m/84'/0'/0'", "m/83696968'/39'/0'/12'/0'", "m/1'", "m/0/1", "m/83696968'/2'/0'", "m/44'/0'/0'/0/0"]
HANDLE_PATHS = ["m/0", "m/44'/0'/0'/0", "m/1/2", "m/84'/0'/0'"]


def _ops(rng, wallet_is_private=True):
    """requests on three wallets that live in the same process: 0 = the wallet under test, 1 = a wallet of another
    mnemonic, 2 = the watch-only wallet of an account of wallet 0.  Windows of generate_children nest and widen,
    nodes obtained once are reused through handles, BIP85 is asked for arbitrary paths and all applications."""
    ops = []
    for _ in range(rng.randrange(4, 14)):
        k = rng.randrange(11)
        who = rng.choice([0, 0, 0, 1, 2])
        if k == 0:
            path = "m/" + "/".join(str(rng.randrange(0, 50)) + rng.choice(["", "'", "h"]) for _ in range(rng.randrange(0, 5)))
            op = ("by_path", path.rstrip("/"))
        elif k == 1:
            op = ("ckd", rng.randrange(0, 6) + rng.choice([0, 2 ** 31]))
        elif k == 2:
            a = rng.choice([0, 0, 0, rng.randrange(0, 30)])
            op = ("generate_children", (a, a + rng.choice([-1, 0, 1, 2, 3, 3, 6, 9])))
        elif k == 3:
            op = ("gen", [rng.choice([None, 0, 1, 2, 5]) for _ in range(rng.randrange(1, 5))])
        elif k == 4:
            a = rng.randrange(0, 25)
            op = ("bip", rng.choice(["bip44", "bip49", "bip84"]), rng.randrange(0, 3), (a, a + rng.randrange(0, 3)))
        elif k == 5:
            app = rng.choice(["wif", "xprv", "hex", "pwd", "bip39_mnemonic"])
            kw = {"hex": dict(num_bytes=rng.choice([16, 32, 64])), "pwd": dict(pwd_len=rng.choice([20, 21, 86])),
                  "bip39_mnemonic": dict(word_count=rng.choice([12, 18, 24]))}.get(app, {})
            op = ("bip85", app, rng.randrange(0, 3), tuple(sorted(kw.items())))
        elif k == 6:
            op = ("entropy", rng.choice(ENTROPY_PATHS))
        elif k == 7:
            a = rng.choice([0, 0, rng.randrange(0, 10)])
            op = ("handle_children", rng.choice(HANDLE_PATHS), (a, a + rng.choice([1, 3, 6, 9])))
        elif k == 8:
            op = ("handle_ckd", rng.choice(HANDLE_PATHS), rng.randrange(0, 4) + rng.choice([0, 0, 2 ** 31]))
        elif k == 9:
            op = ("addr", rng.choice(HANDLE_PATHS), rng.choice(["p2pkh_address", "p2wpkh_address", "p2sh_p2wpkh_address", "p2wsh_address", "p2sh_p2wsh_address"]))
        else:
            op = ("xkeys",)
        ops.append((who,) + op)
    return ops


SCRIPTED = [
    # widening look-ahead windows on one node (duplicates accumulate in `children`)
    [(0, "generate_children", (0, 3)), (0, "generate_children", (0, 6)), (0, "generate_children", (0, 9)), (0, "generate_children", (0, 3))],
    [(0, "handle_children", "m/0", (0, 3)), (0, "handle_children", "m/0", (0, 6)), (0, "handle_children", "m/0", (0, 9)), (0, "handle_children", "m/0", (2, 5))],
    # the same child asked twice, then a window that contains it
    [(0, "ckd", 1), (0, "ckd", 1), (0, "generate_children", (0, 2)), (0, "generate_children", (1, 3)), (0, "ckd", 1)],
    [(0, "handle_ckd", "m/1/2", 0), (0, "handle_ckd", "m/1/2", 0), (0, "handle_children", "m/1/2", (0, 2)), (0, "handle_ckd", "m/1/2", 2 ** 31), (0, "handle_ckd", "m/1/2", 2 ** 31)],
    # single children derived OUT OF ORDER, then windows whose ends / length coincide with what sits in `children`
    [(0, "ckd", 0), (0, "ckd", 5), (0, "ckd", 2), (0, "generate_children", (0, 3)), (0, "generate_children", (0, 3))],
    [(0, "ckd", 0), (0, "ckd", 1), (0, "ckd", 7), (0, "generate_children", (0, 3)), (0, "generate_children", (5, 8))],
    [(0, "ckd", 4), (0, "ckd", 1), (0, "ckd", 2), (0, "generate_children", (0, 3)), (0, "generate_children", (4, 5)), (0, "generate_children", (1, 3))],
    [(0, "generate_children", (3, 6)), (0, "generate_children", (0, 3)), (0, "generate_children", (3, 6)), (0, "generate_children", (0, 6))],
    [(0, "handle_ckd", "m/0", 0), (0, "handle_ckd", "m/0", 7), (0, "handle_ckd", "m/0", 2), (0, "handle_children", "m/0", (0, 3)), (0, "handle_children", "m/0", (1, 3))],
    [(0, "ckd", 2 ** 31), (0, "ckd", 1), (0, "ckd", 2 ** 31 + 2), (0, "generate_children", (2 ** 31, 2 ** 31 + 3)), (0, "generate_children", (0, 2))],
    [(2, "handle_ckd", "m/0", 0), (2, "handle_ckd", "m/0", 9), (2, "handle_ckd", "m/0", 2), (2, "handle_children", "m/0", (0, 3)), (2, "addr", "m/0", "p2wpkh_address")],
    # two generators on one node, then bulk generation
    [(0, "gen", [None, None]), (0, "gen", [0, 2]), (0, "generate_children", (0, 4)), (0, "gen", [5, None, 0])],
    # BIP85 after/before foreign paths, all applications
    [(0, "bip85", "wif", 0, ()), (0, "entropy", "m/84'/0'/0'"), (0, "entropy", "m/83696968'/2'/0'"), (0, "bip85", "wif", 0, ())],
    [(0, "entropy", "m/84'/0'/0'"), (0, "bip85", "xprv", 1, ()), (0, "bip85", "hex", 0, (("num_bytes", 16),)), (0, "bip85", "pwd", 0, (("pwd_len", 20),)),
     (0, "bip85", "bip39_mnemonic", 0, (("word_count", 12),)), (0, "bip85", "bip39_mnemonic", 0, (("word_count", 24),))],
    # the same request on wallets of different secrets and on the watch-only twin
    [(0, "bip", "bip84", 0, (0, 2)), (1, "bip", "bip84", 0, (0, 2)), (0, "bip", "bip84", 0, (0, 2)), (1, "bip85", "wif", 0, ()), (0, "bip85", "wif", 0, ())],
    [(0, "by_path", "m/84'/0'/0'/0/3"), (2, "by_path", "m/0/3"), (2, "handle_children", "m/0", (0, 4)), (0, "by_path", "m/84'/1'/0'/0/3"), (2, "addr", "m/0", "p2wpkh_address")],
    [(2, "by_path", "m/0/3"), (0, "by_path", "m/84'/0'/0'/0/3"), (0, "by_path", "m/84'/1'/0'/0/3"), (2, "by_path", "m/0/3"), (1, "by_path", "m/84'/0'/0'/0/3")],
    [(0, "addr", "m/0", "p2wsh_address"), (1, "addr", "m/0", "p2wsh_address"), (0, "addr", "m/0", "p2sh_p2wsh_address"), (0, "addr", "m/0", "p2pkh_address"), (0, "xkeys",), (1, "xkeys",), (2, "xkeys",)],
]


def _wallets(testnet):
    from btc_hd_wallet import PaperWallet
    w0 = PaperWallet.from_mnemonic(MNEMONIC, testnet=testnet)
    w1 = PaperWallet.from_mnemonic(MNEMONIC2, testnet=testnet)
    acct = PaperWallet.from_mnemonic(MNEMONIC, testnet=testnet).by_path("m/84'/%d'/0'" % (1 if testnet else 0))
    w2 = PaperWallet.from_extended_key(acct.extended_public_key())
    return [w0, w1, w2], [{}, {}, {}]


def _apply(wallets, handles, op):
    def node_repr(n):
        return (type(n).__name__, n.key.hex(), n.chain_code.hex(), n.depth, n.index, n.testnet, n.parent_fingerprint.hex(), str(n))
    who, op = op[0], op[1:]
    wallet, hs = wallets[who], handles[who]

    def handle(path):
        if wallet.watch_only:
            path = "M/" + "/".join(x for x in path.split("/")[1:] if not x.endswith("'"))
            path = path.rstrip("/")
        if path not in hs:
            hs[path] = wallet.by_path(path)
        return hs[path]
    try:
        if op[0] == "by_path":
            return node_repr(wallet.by_path(op[1] if not wallet.watch_only else "M" + op[1][1:]))
        if op[0] == "ckd":
            return node_repr(wallet.master.ckd(op[1]))
        if op[0] == "generate_children":
            # on the SHARED master node: concurrent requests append to the same children list
            return [node_repr(n) for n in wallet.master.generate_children(op[1])]
        if op[0] == "handle_children":
            return [node_repr(n) for n in handle(op[1]).generate_children(op[2])]
        if op[0] == "handle_ckd":
            return node_repr(handle(op[1]).ckd(op[2]))
        if op[0] == "addr":
            return getattr(wallet, op[2])(handle(op[1]))
        if op[0] == "gen":
            node = wallet.master
            g = wallet.address_generator(node)
            res = [next(g)]
            for s in op[1]:
                res.append(g.send(s))
            return res
        if op[0] == "bip":
            return getattr(wallet, op[1])(account=op[2], interval=op[3])
        if op[0] == "bip85":
            return getattr(wallet.bip85, op[1])(index=op[2], **dict(op[3]))
        if op[0] == "entropy":
            return wallet.bip85.entropy(op[1]).hex()
        if op[0] == "xkeys":
            return (wallet.master.extended_public_key(), wallet.node_extended_keys(wallet.master))
    except Exception as e:
        return ("raised", type(e).__name__)


def history(item):
    rng = random.Random(item.get("seed", 0) * 7 + 13)
    rounds = len(SCRIPTED) + (24 if item.get("tier") == "quick" else 200)
    bad = None
    evals = 0
    for r in range(rounds):
        testnet = rng.random() < 0.5
        shared, sh_handles = _wallets(testnet)
        roots_before = [w.master.extended_public_key() for w in shared]
        ops = SCRIPTED[r] if r < len(SCRIPTED) else _ops(rng)
        threaded = r % 3 == 2 and r >= len(SCRIPTED)
        results = [None] * len(ops)
        if threaded:
            import sys
            import time as _time
            import btc_hd_wallet.bip32 as _b32
            old = sys.getswitchinterval()
            sys.setswitchinterval(1e-5)
            _real_hmac = _b32.hmac_sha512

            def _yielding_hmac(key, msg):
                # pass-through PRF that gives the other threads a turn at every derivation step, so that
                # requests on shared nodes really interleave (the result of each call is unchanged)
                _time.sleep(0.0004)
                r = _real_hmac(key=key, msg=msg)
                _time.sleep(0.0004)
                return r
            _b32.hmac_sha512 = _yielding_hmac
            ths = [threading.Thread(target=lambda i=i: results.__setitem__(i, _apply(shared, sh_handles, ops[i]))) for i in range(len(ops))]
            for t in ths:
                t.start()
            for t in ths:
                t.join()
            sys.setswitchinterval(old)
            _b32.hmac_sha512 = _real_hmac
        else:
            for i, op in enumerate(ops):
                results[i] = _apply(shared, sh_handles, op)
        for i, op in enumerate(ops):
            fresh, fh = _wallets(testnet)
            want = _apply(fresh, fh, op)
            evals += 1
            if results[i] != want and bad is None:
                bad = f"{'threaded' if threaded else 'sequential'} history {ops[:i + 1]!r}: result of {op!r} differs from a stateless recomputation"
        if [w.master.extended_public_key() for w in shared] != roots_before and bad is None:
            bad = "root key changed by a history of requests"
        if bad:
            break
    o = dict(name="C13.bounded.history", kind="bounded", backend="bounded", verdict="HELD" if bad is None else "VIOLATED", evaluations=evals,
             bound=f"{len(SCRIPTED)} scripted + {rounds - len(SCRIPTED)} seeded histories of 4..13 API calls on three wallets sharing a process (same mnemonic, other mnemonic, watch-only account; reused node handles, nested windows, arbitrary BIP85 paths; every third history from concurrent threads), seed {item.get('seed', 0)}",
             clause="C13.bounded.history")
    if bad:
        o.update(detail=bad, confirmed=True, replay=dict(confirmed=True, failed=[bad]))
    return [o]
