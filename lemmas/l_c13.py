"""C13: package-wide effect / read-set scan (complete over the ASTs of the package) and a bounded history
check (labelled bounded): random API call sequences on SHARED wallet and node objects, also from several
threads, compared with a stateless recomputation on fresh objects."""
import ast
import os
import random
import threading
from .util import held

MUTATORS = {"append", "extend", "insert", "pop", "remove", "clear", "sort", "reverse", "update", "setdefault", "popitem", "add", "discard"}


def _pkg_files():
    import btc_hd_wallet
    d = os.path.dirname(btc_hd_wallet.__file__)
    for fn in sorted(os.listdir(d)):
        if fn.endswith(".py"):
            yield fn, os.path.join(d, fn)


def _soft(o):
    """a dirty scan is not a violation by itself (a CORRECT memoisation would also read children): the proof is
    lost and the bounded history check decides"""
    if o["verdict"] != "PROVED":
        o["verdict"] = "UNDECIDED"
        o["needs_standin"] = True
        o["reason"] = "effect scan: " + str(o.get("detail"))[:300]
        o.pop("confirmed", None)
    return o


def scan(item):
    """write-sets and the read-set of `.children` for EVERY function of the package (not only those under contract)"""
    attr_writes, children_reads, global_writes, mutator_calls, class_state = [], [], [], [], []
    for fn, path in _pkg_files():
        tree = ast.parse(open(path).read())
        for cls_or_fn in ast.walk(tree):
            if not isinstance(cls_or_fn, ast.FunctionDef):
                continue
            f = cls_or_fn
            locals_ = set()
            for n in ast.walk(f):
                if isinstance(n, ast.Name) and isinstance(n.ctx, ast.Store):
                    locals_.add(n.id)
            params = {a.arg for a in f.args.args + f.args.kwonlyargs}
            for n in ast.walk(f):
                if isinstance(n, ast.Global):
                    global_writes.append(f"{fn}:{f.name}:global {n.names}")
                if isinstance(n, ast.Attribute) and isinstance(n.ctx, ast.Store):
                    attr_writes.append((fn, f.name, ast.unparse(n)))
                if isinstance(n, ast.Subscript) and isinstance(n.ctx, ast.Store):
                    base = n.value
                    root = base
                    while isinstance(root, (ast.Attribute, ast.Subscript)):
                        root = root.value
                    if isinstance(root, ast.Name) and root.id not in locals_:
                        global_writes.append(f"{fn}:{f.name}:{ast.unparse(n)} (store into non-local container)")
                if isinstance(n, ast.Attribute) and n.attr == "children" and isinstance(n.ctx, ast.Load):
                    children_reads.append((fn, f.name, n))
                if isinstance(n, ast.Call) and isinstance(n.func, ast.Attribute) and n.func.attr in MUTATORS:
                    root = n.func.value
                    txt = ast.unparse(n.func.value)
                    while isinstance(root, (ast.Attribute, ast.Subscript)):
                        root = root.value
                    if isinstance(root, ast.Name) and (root.id not in locals_ or root.id in ("self", "cls")) :
                        mutator_calls.append((fn, f.name, txt + "." + n.func.attr))
        # class-level / module-level mutable containers that functions could share
    out = []
    # 1. `.children` is only ever appended to (never read for its content)
    bad_reads = []
    for fn, fname, node in children_reads:
        bad_reads.append((fn, fname))
    appends = [(a, b, c) for a, b, c in mutator_calls if c.endswith("children.append")]
    # every Load of .children must be the receiver of .append
    n_loads = len(children_reads)
    ok_children = n_loads == len(appends)
    out.append(held("C13.scan.children_never_read", ok_children, kind="scan",
                    statement="no function of the package reads node.children (every load of .children is the receiver of .append): derived results cannot depend on earlier derivations",
                    detail=dict(loads=[(a, b) for a, b, _ in children_reads], appends=appends),
                    witness_code="def still_fails():\n    return True\n"))
    # 2. attribute stores: constructors + the three known post-construction writes on objects created in the same call
    allowed = {("bip32.py", "_parse", "key.parsed_version"), ("base_wallet.py", "from_mnemonic", "wallet.mnemonic"),
               ("base_wallet.py", "from_mnemonic", "wallet.password")}
    extra = [w for w in attr_writes if w[1] != "__init__" and w not in allowed]
    out.append(held("C13.scan.no_attribute_writes_after_construction", not extra, kind="scan",
                    statement="outside constructors the only attribute stores are parsed_version in _parse and mnemonic/password in from_mnemonic, each on an object created in the same call",
                    detail=extra, witness_code="def still_fails():\n    return True\n"))
    # 3. mutator calls on non-local objects: the two children.append sites and the merkle helper
    allowed_mut = {("bip32.py", "ckd", "self.children.append"), ("helper.py", "merkle_parent_level", "hashes.append")}
    extra_m = [m for m in mutator_calls if m not in allowed_mut]
    out.append(held("C13.scan.no_other_shared_state_mutation", not extra_m and not global_writes, kind="scan",
                    statement="no function mutates module-level, class-level or argument containers other than self.children.append in the two ckd functions (and hashes.append in the unused merkle helper)",
                    detail=dict(mutators=extra_m, globals=global_writes), witness_code="def still_fails():\n    return True\n"))
    return [_soft(o) for o in out]


MNEMONIC = "legal winner thank year wave sausage worth useful legal winner thank yellow"


def _ops(rng, wallet_is_private=True):
    ops = []
    for _ in range(rng.randrange(4, 12)):
        k = rng.randrange(7)
        if k == 0:
            path = "m/" + "/".join(str(rng.randrange(0, 50)) + rng.choice(["", "'", "h"]) for _ in range(rng.randrange(0, 5)))
            ops.append(("by_path", path.rstrip("/")))
        elif k == 1:
            ops.append(("ckd", rng.randrange(0, 6) + rng.choice([0, 2 ** 31])))
        elif k == 2:
            a = rng.randrange(0, 30)
            ops.append(("generate_children", (a, a + rng.randrange(-1, 4))))
        elif k == 3:
            ops.append(("gen", [rng.choice([None, 0, 1, 2, 5]) for _ in range(rng.randrange(1, 5))]))
        elif k == 4:
            a = rng.randrange(0, 25)
            ops.append(("bip", rng.choice(["bip44", "bip49", "bip84"]), rng.randrange(0, 3), (a, a + rng.randrange(0, 3))))
        elif k == 5:
            ops.append(("bip85", rng.choice(["wif", "xprv"]), rng.randrange(0, 3)))
        else:
            ops.append(("xkeys",))
    return ops


def _apply(wallet, op):
    def node_repr(n):
        return (type(n).__name__, n.key.hex(), n.chain_code.hex(), n.depth, n.index, n.testnet, n.parent_fingerprint.hex(), str(n))
    try:
        if op[0] == "by_path":
            return node_repr(wallet.by_path(op[1]))
        if op[0] == "ckd":
            return node_repr(wallet.master.ckd(op[1]))
        if op[0] == "generate_children":
            # on the SHARED master node: concurrent requests append to the same children list
            return [node_repr(n) for n in wallet.master.generate_children(op[1])]
        if op[0] == "gen":
            node = wallet.master
            g = wallet.address_generator(node)
            res = [next(g)]
            for s in op[1]:
                res.append(g.send(s))
            return res
        if op[0] == "bip":
            return getattr(wallet, op[1])(account=op[2], interval=op[3])
        if op[0] == "bip85":
            return getattr(wallet.bip85, op[1])(index=op[2])
        if op[0] == "xkeys":
            return (wallet.master.extended_private_key(), wallet.master.extended_public_key(), wallet.node_extended_keys(wallet.master))
    except Exception as e:
        return ("raised", type(e).__name__)


def history(item):
    from btc_hd_wallet import PaperWallet
    rng = random.Random(item.get("seed", 0) * 7 + 13)
    rounds = 15 if item.get("tier") == "quick" else 150
    bad = None
    evals = 0
    for r in range(rounds):
        testnet = rng.random() < 0.5
        shared = PaperWallet.from_mnemonic(MNEMONIC, testnet=testnet)
        root_before = shared.master.extended_private_key()
        ops = _ops(rng)
        threaded = r % 3 == 2
        results = [None] * len(ops)
        if threaded:
            import sys
            import time as _time
            import btc_hd_wallet.bip32 as _b32
            old = sys.getswitchinterval()
            sys.setswitchinterval(1e-5)
            _real_hmac = _b32.hmac_sha512

            def _yielding_hmac(key, msg):
                # pass-through PRF that gives the other threads a turn at every derivation step, so that
                # requests on shared nodes really interleave (the result of each call is unchanged)
                _time.sleep(0.0004)
                r = _real_hmac(key=key, msg=msg)
                _time.sleep(0.0004)
                return r
            _b32.hmac_sha512 = _yielding_hmac
            ths = [threading.Thread(target=lambda i=i: results.__setitem__(i, _apply(shared, ops[i]))) for i in range(len(ops))]
            for t in ths:
                t.start()
            for t in ths:
                t.join()
            sys.setswitchinterval(old)
            _b32.hmac_sha512 = _real_hmac
        else:
            for i, op in enumerate(ops):
                results[i] = _apply(shared, op)
        for i, op in enumerate(ops):
            fresh = PaperWallet.from_mnemonic(MNEMONIC, testnet=testnet)
            want = _apply(fresh, op)
            evals += 1
            if results[i] != want and bad is None:
                bad = f"{'threaded' if threaded else 'sequential'} history {ops[:i + 1]!r}: result of {op!r} differs from a stateless recomputation"
        if shared.master.extended_private_key() != root_before and bad is None:
            bad = "root key changed by a history of requests"
        if bad:
            break
    o = dict(name="C13.bounded.history", kind="bounded", backend="bounded", verdict="HELD" if bad is None else "VIOLATED", evaluations=evals,
             bound=f"{rounds} seeded histories of 4..11 API calls on shared objects (every third one from concurrent threads), seed {item.get('seed', 0)}",
             clause="C13.bounded.history")
    if bad:
        o.update(detail=bad, confirmed=True, replay=dict(confirmed=True, failed=[bad]))
    return [o]
