"""C08 bounded stand-in (labelled bounded, never counted as proved): the creation paths of fresh wallets run against
an OS randomness source that is recorded and, in turn, replaced by chosen byte streams.  Decides the behavioural
content of C08 when a proof or a source scan is lost on a changed tree: enough bits are requested from the OS for
every creation, the entropy IS the bytes the OS returned (lossless, every bit position reachable), nothing else
(process-wide PRNG state, earlier creations, a cache) influences it, and an unavailable OS source is an error."""
import os
import random


def _decode_entropy(mnemonic):
    """entropy of a sentence by the independent spec decoder (official word list, checksum verified)"""
    from spec import bip39 as SB
    return SB.entropy_from_mnemonic(mnemonic)


class _Exhausted(BaseException):
    """a creation asked the substituted OS source more than MAX_REQUESTS times (rejection sampling that never accepts
    a constant stream, e.g. randrange(2**ENT) on all-ones): the sample is inconclusive, not a violation"""


MAX_REQUESTS = 256


class _Source:
    """replacement for os.urandom / random._urandom: records request sizes; serves a chosen stream or real bytes"""
    def __init__(self, mode):
        self.mode, self.requests, self.served = mode, [], []
        self.real = os.urandom

    def __call__(self, n):
        self.requests.append(n)
        if len(self.requests) > MAX_REQUESTS:
            raise _Exhausted()
        if self.mode == "unavailable":
            raise NotImplementedError("no OS randomness source")
        if self.mode == "ones":
            b = b"\xff" * n
        elif self.mode == "zeros":
            b = bytes(n)
        elif self.mode == "pattern":
            b = bytes((37 * (i + len(self.served)) + 11) % 256 for i in range(n))
        else:
            b = self.real(n)
        self.served.append(b)
        return b


def harness(item):
    import btc_hd_wallet.bip39 as bip39
    from btc_hd_wallet import BaseWallet, PaperWallet
    bad = None
    evals = skipped = 0

    def check(cond, what):
        nonlocal bad
        if not cond and bad is None:
            bad = what
    lengths = {12: 128, 15: 160, 18: 192, 21: 224, 24: 256}
    makers = [("bip39.mnemonic_from_entropy_bits", lambda bits, wc: bip39.mnemonic_from_entropy_bits(bits)),
              ("BaseWallet.new_wallet", lambda bits, wc: BaseWallet.new_wallet(mnemonic_length=wc).mnemonic),
              ("PaperWallet.new_wallet", lambda bits, wc: PaperWallet.new_wallet(mnemonic_length=wc, testnet=True).mnemonic),
              ("BaseWallet.from_entropy_bits", lambda bits, wc: BaseWallet.from_entropy_bits(entropy_bits=bits).mnemonic),
              ("PaperWallet.from_entropy_bits", lambda bits, wc: PaperWallet.from_entropy_bits(entropy_bits=bits, password="p").mnemonic)]
    real_u, real_ru = os.urandom, random._urandom
    state = random.getstate()
    try:
        for wc, bits in lengths.items():
            for name, mk in makers:
                for mode in ("real", "ones", "zeros", "pattern"):
                    for rep in range(3 if mode == "real" else 2):
                        src = _Source(mode)
                        os.urandom = src
                        random._urandom = src
                        random.seed(4242)                      # the process-wide PRNG is reset before EVERY creation
                        try:
                            m = mk(bits, wc)
                        except _Exhausted:
                            skipped += 1
                            continue
                        finally:
                            os.urandom, random._urandom = real_u, real_ru
                        evals += 1
                        tag = f"{name}({wc} words, OS source = {mode}, creation #{rep + 1})"
                        check(isinstance(m, str) and len(m.split(" ")) == wc, f"{tag}: not a {wc}-word sentence")
                        if bad:
                            break
                        got = sum(src.requests) * 8
                        check(got >= bits, f"{tag}: only {got} bits requested from the OS source, {bits} needed")
                        ent = _decode_entropy(m)
                        flat = b"".join(src.served)
                        # R1: getrandbits(k) = int.from_bytes(urandom(k/8)) for k a multiple of 8: the entropy IS the OS bytes
                        # (either byte order: getrandbits reads the OS bytes big-endian, randbytes hands them out reversed;
                        #  both use every OS byte exactly once)
                        nb = bits // 8
                        wins = [flat[i:i + nb] for i in range(0, max(1, len(flat) - nb + 1))]
                        check(ent in wins or ent[::-1] in wins,
                              f"{tag}: the entropy {ent.hex()} is not the bytes the OS source returned ({flat.hex()[:80]}...)")
                    if bad:
                        break
                if bad:
                    break
                # an unavailable OS source is an error, never a silent fallback
                src = _Source("unavailable")
                os.urandom = src
                random._urandom = src
                try:
                    try:
                        m = mk(bits, wc)
                        check(False, f"{name}({wc} words): a wallet was created although the OS randomness source is unavailable")
                    except (NotImplementedError, _Exhausted):
                        pass
                    except Exception:
                        pass
                finally:
                    os.urandom, random._urandom = real_u, real_ru
                evals += 1
            if bad:
                break
    finally:
        os.urandom, random._urandom = real_u, real_ru
        random.setstate(state)
    o = dict(name="C08.bounded.os_source", kind="bounded", backend="bounded", verdict="HELD" if bad is None else "VIOLATED", evaluations=evals,
             bound="5 lengths x 5 creation paths x (3 real + 2 all-ones + 2 all-zero + 2 patterned OS streams + 1 unavailable source), process-wide PRNG reseeded before every creation"
               + (f"; {skipped} creation(s) inconclusive (more than {MAX_REQUESTS} requests to a constant stream)" if skipped else ""),
             clause="C08.bounded.os_source")
    if bad:
        o.update(detail=bad, confirmed=True, replay=dict(confirmed=True, failed=[bad]))
    return [o]
