"""C15 bounded stand-in (labelled bounded): for seeded wallets the paranoia-filtered output contains none of the
secret strings of the unfiltered output, no string that decodes to a private-key encoding (independent
Base58Check decoder), and every public string equals the unfiltered one; also through main() with --paranoia."""
import io
import json
import random
import sys
from contextlib import redirect_stdout
from spec import base58 as SB

PRV_VERSIONS = {0x0488ADE4, 0x049d7878, 0x04b2430c, 0x04358394, 0x044a4e28, 0x045f18bc}


def leaves(x, path=()):
    if isinstance(x, dict):
        for k, v in x.items():
            yield from leaves(v, path + (k,))
    elif isinstance(x, (list, tuple)):
        for i, v in enumerate(x):
            yield from leaves(v, path + (i,))
    else:
        yield path, x


def is_private_encoding(s):
    if not isinstance(s, str):
        return False
    try:
        p = SB.b58check_decode(s)
    except Exception:
        return False
    if len(p) in (33, 34) and p[0] in (0x80, 0xef):
        return True
    if len(p) == 78 and int.from_bytes(p[:4], "big") in PRV_VERSIONS:
        return True
    return False


def differential(item):
    from btc_hd_wallet import PaperWallet
    from btc_hd_wallet.__main__ import paranoia_mode
    import btc_hd_wallet.__main__ as M
    rng = random.Random(item.get("seed", 0) * 17 + 15)
    n = 6 if item.get("tier") == "quick" else 60
    bad = None
    evals = 0
    for i in range(n):
        testnet = rng.random() < 0.5
        ent = bytes(rng.randrange(256) for _ in range(rng.choice([16, 20, 24, 28, 32]))).hex()
        pw = rng.choice(["", "hunter2", "pässwörd"])
        account = rng.choice([0, 1, 2 ** 31 - 2])
        a = rng.choice([0, 3, 2 ** 31 - 3])
        interval = (a, a + rng.choice([0, 1, 3]))
        w = PaperWallet.from_entropy_hex(ent, password=pw, testnet=testnet)
        full = w.generate(account=account, interval=interval)
        filt = paranoia_mode(full)
        secrets = set()
        for path, v in leaves(full):
            if isinstance(v, str) and v and (path[0] in ("MASTER", "BIP85") or path[-1] == "prv" or (len(path) >= 4 and path[1] == "groups" and path[-1] == 3)):
                secrets.add(v)
        evals += 1
        fl = list(leaves(filt))
        for path, v in fl:
            if v in secrets and bad is None:
                bad = f"secret string at {path} of the filtered output"
            if is_private_encoding(v) and bad is None:
                bad = f"string at {path} of the filtered output decodes to a private-key encoding"
        for sec in ("BIP44", "BIP49", "BIP84"):
            if sec not in filt and bad is None:
                bad = f"section {sec} missing from the filtered output"
                break
            want_rows = [r[:3] for r in full[sec]["groups"]]
            if (filt[sec]["groups"] != want_rows or filt[sec]["account_extended_keys"] != {k: full[sec]["account_extended_keys"][k] for k in ("path", "pub")}) and bad is None:
                bad = f"public data of {sec} differs from the unfiltered output"
        if set(filt) != {"BIP44", "BIP49", "BIP84"} and bad is None:
            bad = f"filtered output has sections {sorted(filt)}"
        # through the CLI entry point
        if i % 3 == 0 and bad is None:
            old = sys.argv
            sys.argv = ["x", "--paranoia", "--account", str(account), "--interval", str(interval[0]), str(interval[1])] + (["--testnet"] if testnet else []) + \
                ["from-entropy-hex", ent] + (["--password", pw] if pw else [])
            buf = io.StringIO()
            try:
                with redirect_stdout(buf):
                    M.main()
                if json.loads(buf.getvalue()) != filt:
                    bad = "CLI --paranoia output differs from paranoia_mode(generate())"
            except BaseException as e:
                bad = f"CLI --paranoia run failed: {e!r}"
            finally:
                sys.argv = old
        if bad:
            break
    o = dict(name="C15.bounded.differential", kind="bounded", backend="bounded", verdict="HELD" if bad is None else "VIOLATED", evaluations=evals,
             bound=f"{n} seeded wallets (both networks, accounts/intervals at the range ends), every leaf of the filtered output; seed {item.get('seed', 0)}",
             clause="C15.bounded.differential")
    if bad:
        o.update(detail=bad, confirmed=True, replay=dict(confirmed=True, failed=[bad]))
    return [o]
