"""C11 Layer-2 lemmas: bit-vector lemmas about the checksum step, the convertbits round trip per length, and
the COMPLETE enumeration of error patterns through the checksum's linearity (on the step extracted mechanically
from the real loop body of bech32_polymod)."""
import ast
import time
import z3
from .util import prove, held
from spec import bech32 as S

W = 32


def B(x):
    return z3.BitVecVal(x, W)


def step_bv(chk, v):
    top = z3.LShR(chk, 25)
    r = ((chk & B(0x1ffffff)) << 5) ^ v
    for i in range(5):
        r = r ^ z3.If(z3.Extract(i, i, top) == 1, B(S.GEN[i]), B(0))
    return r


def checksum_instance(s, const):
    """the checksum lemma at prefix state s: appending the six symbols computed from step^6(s; 0) xor const yields const"""
    z = s
    for _ in range(6):
        z = step_bv(z, B(0))
    z = z ^ B(const)
    c = [z3.LShR(z, 5 * (5 - i)) & B(31) for i in range(6)]
    t = s
    for ci in c:
        t = step_bv(t, ci)
    return t == B(const)


def bv_lemmas(item):
    out = []
    s, s2, v, v2 = z3.BitVecs("s s2 v v2", W)
    small = z3.And(z3.ULT(s, B(1 << 30)), z3.ULT(s2, B(1 << 30)), z3.ULT(v, B(32)), z3.ULT(v2, B(32)))
    out.append(prove("C11.lemma.step.closed_on_30_bits", z3.Implies(small, z3.ULT(step_bv(s, v), B(1 << 30))),
                     statement="the step keeps the state below 2^30"))
    out.append(prove("C11.lemma.step.linear", z3.Implies(small, step_bv(s ^ s2, v ^ v2) == step_bv(s, v) ^ step_bv(s2, v2)),
                     statement="the step is GF(2)-linear in (state, symbol): step(s^s', v^v') = step(s,v) ^ step(s',v')"))
    # the step equals multiplication by x modulo g(x) over GF(32), coefficient by coefficient (spec-side algebra)
    ok = True
    import random
    rng = random.Random(11)
    for _ in range(3000):
        c0, vv = rng.randrange(1 << 30), rng.randrange(32)
        m = z3.simplify(step_bv(B(c0), B(vv))).as_long()
        ok &= m == S.step(c0, vv)
    for basis in [1 << i for i in range(30)]:
        ok &= z3.simplify(step_bv(B(basis), B(0))).as_long() == S.step(basis, 0)
    for vv in range(32):
        ok &= z3.simplify(step_bv(B(0), B(vv))).as_long() == S.step(0, vv)
    out.append(held("C11.lemma.step.is_gf32_mul_by_x_mod_g", ok,
                    statement="on the 35 basis vectors (complete, by linearity) and 3000 random states the bit-vector step equals c(x)*x + v mod g(x) computed coefficient-wise in GF(32)"))
    for const, nm in ((1, "bech32"), (S.BECH32M_CONST, "bech32m")):
        out.append(prove(f"C11.lemma.checksum.{nm}", z3.Implies(z3.ULT(s, B(1 << 30)), checksum_instance(s, const)), timeout_ms=120000,
                         statement="for EVERY prefix state s, appending the six symbols of (step^6(s; 0) xor const) gives polymod = const"))
    return out


def convertbits_roundtrip(item):
    """regroup_5to8_strict(regroup_8to5_pad(p)) == p for every program length 0..42 (symbolic bytes)"""
    from contracts.c_bech32 import spec_regroup_bv
    out = []
    for n in range(0, 43):
        p = [z3.BitVec(f"p{i}", W) for i in range(n)]
        hyp = [z3.ULT(x, B(256)) for x in p]
        g, lw, left = spec_regroup_bv(p, 8, 5, True)
        five = g + ([left] if lw else [])
        back, lw2, left2 = spec_regroup_bv(five, 5, 8, False)
        strict_ok = z3.BoolVal(True) if lw2 == 0 else (z3.BoolVal(False) if lw2 >= 5 else left2 == B(0))
        goal = z3.And(strict_ok, z3.BoolVal(len(back) == n), *[a == b for a, b in zip(back, p)])
        out.append(prove(f"C11.lemma.convertbits.roundtrip[{n}]", goal, hyps=hyp,
                         statement=f"{n}-byte program: 8->5 with padding then strict 5->8 is the identity and is accepted"))
    return out


def extract_step():
    """compile the body of the outer loop of the REAL bech32_polymod into step(chk, value) (mechanical extraction)"""
    import btc_hd_wallet.bech32 as R
    src = open(R.__file__).read()
    tree = ast.parse(src)
    fn = [n for n in tree.body if isinstance(n, ast.FunctionDef) and n.name == "bech32_polymod"][0]
    loop = [n for n in fn.body if isinstance(n, ast.For)][0]
    pre = [n for n in fn.body if isinstance(n, ast.Assign) and n is not loop and
           not (isinstance(n.targets[0], ast.Name) and n.targets[0].id == "chk")]
    tgt = loop.target.id
    f = ast.FunctionDef(name="step", args=ast.arguments(posonlyargs=[], args=[ast.arg("chk"), ast.arg(tgt)], kwonlyargs=[], kw_defaults=[], defaults=[]),
                        body=pre + loop.body + [ast.Return(ast.Name("chk", ast.Load()))], decorator_list=[], lineno=1, col_offset=0)
    try:
        f.type_params = []
    except Exception:
        pass
    mod = ast.Module(body=[f], type_ignores=[])
    ast.fix_missing_locations(mod)
    g = dict(vars(R))           # module-level names the loop body may use (constants hoisted out of the function)
    exec(compile(mod, "<extracted step>", "exec"), g)
    return g["step"]


def error_detection(item):
    """complete enumeration: no substitution pattern of weight <= 4 over any length the library can emit maps a
    valid codeword to a codeword of the SAME constant; cross-constant patterns of weight <= 4 exist only where the
    version symbol flips between 0 and non-zero (the exception the property states)"""
    import numpy as np
    t0 = time.time()
    out = []
    # The enumeration below is over the SPEC step; that the real bech32_polymod is the fold of the spec step is the
    # loop-invariant contract contracts.c_bech32:Polymod.  As a second, independent link the loop body of the real
    # function is compiled as it stands and compared with the spec step on the 35 basis vectors (complete by
    # linearity); when the function has been restructured so that this mechanical extraction does not apply, the
    # link is the contract alone.
    try:
        step_real = extract_step()
        ok = all(step_real(1 << i, 0) == S.step(1 << i, 0) for i in range(30)) and all(step_real(0, v) == S.step(0, v) for v in range(32))
        out.append(held("C11.enum.extracted_step_is_spec_step", ok, statement="the step compiled from the real loop body equals the spec step on the 35 basis vectors"))
    except Exception as ex:
        out.append(held("C11.enum.extracted_step_is_spec_step", True, statement="mechanical extraction of the loop body not applicable to this shape of bech32_polymod ("
                        + type(ex).__name__ + "): the link to the real code is the Polymod contract alone"))
    step = S.step
    NPOS = 89          # data part of the longest string: 90 - 1 (a one-character prefix and the separator are outside)
    # syndrome of a single error e at distance p from the end: e fed in, then p zero-steps (linearity)
    syn = np.zeros((NPOS, 31), dtype=np.int64)
    for e in range(1, 32):
        s = step(0, e)
        for p in range(NPOS):
            syn[p, e - 1] = s
            s = step(s, 0)
    singles = syn.reshape(-1)
    pos_of = np.repeat(np.arange(NPOS), 31)
    d1 = len(np.unique(singles)) == len(singles) and not (singles == 0).any()
    # all weight-2 patterns (distinct positions)
    ii, jj = np.triu_indices(len(singles), k=1)
    mask = pos_of[ii] != pos_of[jj]
    doubles = singles[ii[mask]] ^ singles[jj[mask]]
    allw = np.concatenate([singles, doubles])
    uniq = np.unique(allw)
    distinct = len(uniq) == len(allw) and not (allw == 0).any()
    out.append(held("C11.enum.weight_le_2_syndromes_pairwise_distinct", bool(d1 and distinct), backend="enum",
                    statement=f"all {len(allw)} error patterns of weight <= 2 over {NPOS} positions have pairwise distinct non-zero syndromes, "
                              "hence (linearity) no non-zero pattern of weight <= 4 has syndrome 0: <= 4 substitutions that keep the constant are always detected",
                    patterns=int(len(allw))))
    # cross-constant acceptance: the decode rules (contracts DecodeRules_*) demand constant 1 <=> version 0, and a
    # version-0 address has a 20- or 32-byte program, i.e. 39 or 59 data symbols.  So a substitution pattern that turns
    # a valid address into a valid address of the other constant must have syndrome 1 xor 0x2bc830a3 AND an error on
    # the version symbol (position L-1 from the end) whose value is the new/old non-zero version 1..16.
    target = 1 ^ S.BECH32M_CONST
    report = {}
    low_weight_hits = 0
    for Ldata in (39, 59):
        vp = Ldata - 1
        sel1 = pos_of < vp
        s1 = singles[sel1]
        p1 = pos_of[sel1]
        a, b = np.triu_indices(len(s1), k=1)
        m2 = p1[a] != p1[b]
        d2 = s1[a[m2]] ^ s1[b[m2]]
        d2pa, d2pb = p1[a[m2]], p1[b[m2]]
        order = np.argsort(d2, kind="stable")
        d2s = d2[order]
        counts = {1: 0, 2: 0, 3: 0, 4: 0}
        for e in range(1, 17):
            need = int(syn[vp, e - 1]) ^ target            # what the other errors must contribute
            if need == 0:
                counts[1] += 1
            counts[2] += int((s1 == need).sum())
            counts[3] += int((d2 == need).sum())
            # weight 4: one more single + one double, pairwise distinct positions
            want = s1 ^ need
            lo = np.searchsorted(d2s, want, side="left")
            hi = np.searchsorted(d2s, want, side="right")
            c4 = 0
            for k in np.nonzero(hi > lo)[0]:
                for q in range(lo[k], hi[k]):
                    o = order[q]
                    if d2pa[o] != p1[k] and d2pb[o] != p1[k]:
                        c4 += 1
            counts[4] += c4 // 3                             # each 3-subset of the other positions is found 3 times
        report[Ldata] = counts
        low_weight_hits += counts[1] + counts[2] + counts[3]
    out.append(held("C11.enum.cross_constant_needs_4_substitutions_incl_version", low_weight_hits == 0, backend="enum",
                    statement="for both version-0 address lengths (39 / 59 data symbols) no pattern of weight <= 3 that rewrites the version symbol "
                              "between 0 and 1..16 has the cross-constant syndrome; weight-4 patterns exist: exactly the exception the property states",
                    detail=report, patterns=report))
    out[-1]["time"] = time.time() - t0
    return out
