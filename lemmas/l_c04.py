"""C04: the embedded word list is the official 2048-word BIP39 English list in the official order
(exhaustive constant check; the hash is the published SHA-256 of bip-0039/english.txt)."""
import hashlib
from .util import held

ENGLISH_SHA256 = "2f5eed53a4727b4bf8880d8f3f199efc90e58503646d9ff8eff3a2ed3b24dbda"
WIT = ("def still_fails():\n    import hashlib\n    from btc_hd_wallet.bip39_wordlist import word_list\n"
       "    return hashlib.sha256(('\\n'.join(word_list) + '\\n').encode()).hexdigest() != '%s'\n" % ENGLISH_SHA256)


def wordlist(item):
    from btc_hd_wallet.bip39_wordlist import word_list
    import btc_hd_wallet.bip39 as bip39
    wl = list(word_list)
    out = []
    out.append(held("C04.wordlist.2048_entries", len(wl) == 2048, statement="the list has 2048 entries", witness_code=WIT))
    out.append(held("C04.wordlist.pairwise_distinct", len(set(wl)) == len(wl), statement="entries are pairwise distinct (word -> index is a function)", witness_code=WIT))
    out.append(held("C04.wordlist.sorted", wl == sorted(wl), statement="entries are in the official (sorted) order", witness_code=WIT))
    out.append(held("C04.wordlist.distinct_4_letter_prefixes", len({w[:4] for w in wl}) == len(wl), statement="first four letters identify a word", witness_code=WIT))
    out.append(held("C04.wordlist.no_space", all(w and " " not in w and w == w.strip().lower() for w in wl),
                    statement="no entry contains a space (sentences split unambiguously)", witness_code=WIT))
    h = hashlib.sha256(("\n".join(wl) + "\n").encode()).hexdigest()
    out.append(held("C04.wordlist.official_sha256", h == ENGLISH_SHA256, statement="SHA-256 of the list equals the published hash of english.txt", detail=h, witness_code=WIT))
    out.append(held("C04.wordlist.is_the_list_used", bip39.word_list is word_list, statement="bip39.mnemonic_from_entropy indexes this very list",
                    witness_code="def still_fails():\n    import btc_hd_wallet.bip39 as b\n    from btc_hd_wallet.bip39_wordlist import word_list\n    return b.word_list is not word_list\n"))
    out.append(held("C04.tables.sizes", bip39.CORRECT_ENTROPY_BITS == [128, 160, 192, 224, 256] and bip39.CORRECT_MNEMONIC_LENGTH == [12, 15, 18, 21, 24]
                    and bip39.MNEMONIC_LENGTH_TO_ENTROPY_BITS == {12: 128, 15: 160, 18: 192, 21: 224, 24: 256},
                    statement="the size tables are the BIP39 tables", witness_code="def still_fails():\n    import btc_hd_wallet.bip39 as b\n    return b.MNEMONIC_LENGTH_TO_ENTROPY_BITS != {12: 128, 15: 160, 18: 192, 21: 224, 24: 256}\n"))
    return out
