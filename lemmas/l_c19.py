"""C19 Layer-2 lemmas (code-independent): the list-level round trip parse(serialize(cmds)) = cmds for scripts of ANY
number of elements, from
  (S) the serializer contracts  RawSerializeData_* / SerializeShape: enc(data d) = push-prefix(len d) || d for
      1 <= len d <= 520, enc(opcode o) = the byte o, raw = enc(c_0) || ... || enc(c_{n-1}), preceded by varint(len raw);
  (P) the step contract of Script.parse (contracts.c_script.ParseStep): from any loop state with b = S(p) the body
      appends the element announced by the bytes at p and advances position and count by the encoding length.
What is proved here:
  (1) header lemma: decoding the standard push prefix of a length L in 1..520 (the table of (P)) yields exactly
      (prefix length, L); an opcode byte in {0} u [78, 255] decodes to itself (complete case analysis in z3);
  (2) exit lemma (induction schema): with e(i) >= 1 the encoding length of element i and off(j) = e(0)+..+e(j-1),
      the loop condition `count < length` with length = off(n) holds at off(j) for every j < n and fails at off(n), so
      the loop performs exactly n steps and `count != length` is false at exit.
The induction rule over the number of elements is the only meta-level step (as in lemmas.l_c10)."""
import z3
from .util import prove, held


def decode_table(b0, b1, b2):
    """(is_data, header length, data length) announced by the bytes at a position: Bitcoin Script wire format"""
    bare = z3.And(b0 >= 1, b0 <= 75)
    pd1 = b0 == 76
    pd2 = b0 == 77
    is_data = z3.Or(bare, pd1, pd2)
    h = z3.If(bare, 1, z3.If(pd1, 2, 3))
    ln = z3.If(bare, b0, z3.If(pd1, b1, b1 + 256 * b2))
    return is_data, h, ln


def push_prefix(L):
    """standard (minimal) push prefix of a data element of L bytes as (number of prefix bytes, byte0, byte1, byte2);
    mirrors contracts.c_script.spec_push_prefix, against which the serializer is verified for every length"""
    n = z3.If(L <= 75, 1, z3.If(L <= 255, 2, 3))
    b0 = z3.If(L <= 75, L, z3.If(L <= 255, 76, 77))
    b1 = z3.If(L <= 75, -1, z3.If(L <= 255, L, L % 256))
    b2 = z3.If(L <= 255, -1, L / 256)
    return n, b0, b1, b2


def fold(item):
    out = []
    # (0) the symbolic push_prefix above IS the spec function the serializer contracts use (complete enumeration)
    from contracts.c_script import spec_push_prefix
    ok = True
    for Lc in range(1, 521):
        pre = spec_push_prefix(Lc)
        s = z3.Solver()
        n, b0, b1, b2 = push_prefix(z3.IntVal(Lc))
        want = list(pre) + [-1] * (3 - len(pre))
        s.add(z3.Not(z3.And(n == len(pre), b0 == want[0], b1 == want[1], b2 == want[2])))
        ok = ok and s.check() == z3.unsat
    out.append(held("C19.lemma.push_prefix_is_the_serializer_spec", ok,
                    statement="the symbolic push prefix equals spec_push_prefix for every length 1..520 (520 cases)"))
    # (1) header lemma
    L = z3.Int("L")
    n, b0, b1, b2 = push_prefix(L)
    x1, x2 = z3.Int("x1"), z3.Int("x2")           # whatever follows a short prefix (first data bytes)
    by1 = z3.If(n >= 2, b1, x1)
    by2 = z3.If(n >= 3, b2, x2)
    is_data, h, ln = decode_table(b0, by1, by2)
    rng = z3.And(L >= 1, L <= 520, x1 >= 0, x1 <= 255, x2 >= 0, x2 <= 255)
    out.append(prove("C19.lemma.header.decodes_to_its_length", z3.Implies(rng, z3.And(is_data, h == n, ln == L)),
                     statement="for 1 <= L <= 520 the step's decode table applied to push-prefix(L) announces a data element of exactly L bytes after exactly the prefix"))
    out.append(prove("C19.lemma.header.bytes_are_bytes", z3.Implies(rng, z3.And(b0 >= 0, b0 <= 255, z3.Implies(n >= 2, z3.And(b1 >= 0, b1 <= 255)), z3.Implies(n >= 3, z3.And(b2 >= 0, b2 <= 255))))))
    o = z3.Int("o")
    is_data_o, _, _ = decode_table(o, x1, x2)
    out.append(prove("C19.lemma.opcode.decodes_to_itself", z3.Implies(z3.Or(o == 0, z3.And(o >= 78, o <= 255)), z3.Not(is_data_o)),
                     statement="an opcode byte in {0} u [78,255] is not read as a push"))
    out.append(prove("C19.lemma.opcode.push_range_is_not_an_opcode", z3.Implies(z3.And(o >= 1, o <= 77), is_data_o),
                     statement="(why opcodes 1..77 are excluded from the round trip: their byte announces data)"))
    # (2) exit lemma by the induction schema over k = n - j
    e = z3.Function("enc_len", z3.IntSort(), z3.IntSort())
    off = z3.Function("off", z3.IntSort(), z3.IntSort())
    j, k, nn = z3.Int("j"), z3.Int("k"), z3.Int("n")

    def defs(*idx):
        return [z3.And(off(i + 1) == off(i) + e(i), e(i) >= 1) for i in idx]
    # P(k): off(j + k) >= off(j) + k
    out.append(prove("C19.lemma.exit.monotone.base", off(j + 0) >= off(j) + 0))
    out.append(prove("C19.lemma.exit.monotone.step", z3.Implies(z3.And(k >= 0, off(j + k) >= off(j) + k), off(j + k + 1) >= off(j) + k + 1),
                     hyps=defs(j + k), statement="off(j+k) >= off(j)+k  =>  off(j+k+1) >= off(j)+k+1  (every encoding has at least one byte)"))
    # consequence used at the loop: for 0 <= j < n the loop condition off(j) < off(n) holds (instance k = n - j >= 1 of P)
    out.append(prove("C19.lemma.exit.loop_continues_before_the_last_element",
                     z3.Implies(z3.And(j >= 0, j < nn, off(j + (nn - j)) >= off(j) + (nn - j)), off(j) < off(nn))))
    out.append(prove("C19.lemma.exit.loop_stops_after_the_last_element", z3.Not(off(nn) < off(nn))))
    # (3) the invariant "after j steps cmds = cs[:j] and pos = p0 + off(j)" is preserved: instance of (P) with (1):
    # element j of the input is encoded at off(j); the step appends the element announced there and advances by e(j).
    cj_len, p0 = z3.Int("cj_len"), z3.Int("p0")
    adv = z3.Int("adv")
    n2, c0, c1, c2 = push_prefix(cj_len)
    d_is, d_h, d_ln = decode_table(c0, z3.If(n2 >= 2, c1, x1), z3.If(n2 >= 3, c2, x2))
    out.append(prove("C19.lemma.invariant.data_step",
                     z3.Implies(z3.And(cj_len >= 1, cj_len <= 520, x1 >= 0, x1 <= 255, x2 >= 0, x2 <= 255, e(j) == n2 + cj_len, adv == d_h + d_ln),
                                z3.And(d_is, p0 + off(j) + d_h == p0 + off(j) + n2, d_ln == cj_len, p0 + off(j) + adv == p0 + off(j + 1))),
                     hyps=defs(j), statement="a data element of 1..520 bytes encoded at off(j): the step appends exactly its bytes and reaches off(j+1)"))
    out.append(prove("C19.lemma.invariant.opcode_step",
                     z3.Implies(z3.And(z3.Or(o == 0, z3.And(o >= 78, o <= 255)), e(j) == 1), z3.And(z3.Not(is_data_o), p0 + off(j) + 1 == p0 + off(j + 1))),
                     hyps=defs(j), statement="an opcode encoded at off(j): the step appends that integer and reaches off(j+1)"))
    return out


def canary(item):
    """must FAIL: a decode table that reads byte 76 as a bare length contradicts the header lemma"""
    L = z3.Int("L")
    n, b0, b1, b2 = push_prefix(L)
    wrong_is_bare = z3.And(b0 >= 1, b0 <= 76)
    r = prove("C19.lemma.canary.header76", z3.Implies(z3.And(L >= 1, L <= 520), z3.Implies(wrong_is_bare, b0 == L)))
    r["kind"] = "canary"
    r["verdict"] = "CANARY_OK" if r["verdict"] == "REFUTED" else "CANARY_PASSED_VACUOUS"
    r["refuted"] = 1 if r["verdict"] == "CANARY_OK" else 0
    return [r]
