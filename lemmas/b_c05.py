"""C05 bounded / enumeration items: spec self-test (paper vectors, OpenSSL) and a differential sweep of the
REAL ripemd160 / hash160 over every length 0..1024 (all padding boundaries) - labelled bounded."""
import hashlib
import random
from .util import held
from spec import ripemd160 as S


def spec_selftest(item):
    out = [held("C05.spec.ripemd160.paper_vectors", S.selftest(), statement="the generative spec reproduces the RIPEMD-160 paper's vectors")]
    rng = random.Random(5)
    ok = True
    for n in list(range(0, 130)) + [1000, 1024]:
        d = bytes(rng.randrange(256) for _ in range(n))
        h = hashlib.new("ripemd160")
        h.update(d)
        ok &= S.ripemd160(d) == h.digest()
    out.append(held("C05.spec.ripemd160.openssl", ok, statement="the generative spec agrees with OpenSSL's RIPEMD-160 on lengths 0..129, 1000, 1024"))
    return out


def sweep(item):
    import btc_hd_wallet.ripemd as R
    import btc_hd_wallet.helper as H
    rng = random.Random(item.get("seed", 0) + 505)
    lens = range(0, 1025) if item.get("tier") == "thorough" else list(range(0, 200)) + list(range(200, 1025, 7)) + [247, 248, 311, 312, 1023, 1024]
    bad = None
    n = 0
    for ln in lens:
        d = bytes(rng.randrange(256) for _ in range(ln))
        want = S.ripemd160(d)
        n += 2
        if bytes(R.ripemd160(d)) != want:
            bad = f"ripemd160 of {ln} bytes differs from the spec"
            break
        if bytes(H.hash160(d)) != S.ripemd160(hashlib.sha256(d).digest()):
            bad = f"hash160 of {ln} bytes != RIPEMD160(SHA256(x))"
            break
    o = dict(name="C05.bounded.ripemd160_sweep", kind="bounded", backend="bounded", verdict="HELD" if bad is None else "VIOLATED",
             evaluations=n, bound=f"lengths 0..1024 ({len(list(lens))} of them), one random message each", clause="C05.bounded.ripemd160_sweep")
    if bad:
        o.update(detail=bad, confirmed=True, replay=dict(confirmed=True, failed=[bad]))
    return [o]
