"""C11 bounded stand-in (labelled bounded): the real bech32 module against the independent spec over all 18 x 43
(version, length) pairs with random programs and prefixes, plus mutations of valid addresses (substitution,
insertion, deletion, case changes) whose acceptance must coincide with the spec decoder."""
import random
from spec import bech32 as S


def differential(item):
    import btc_hd_wallet.bech32 as R
    import btc_hd_wallet.helper as H
    rng = random.Random(item.get("seed", 0) * 31 + 11)
    reps = 2 if item.get("tier") == "quick" else 30
    bad = None
    n = 0

    def check(cond, what):
        nonlocal bad
        if not cond and bad is None:
            bad = what
    hrps = ["bc", "tb", "bcrt", "a", "test", "x" * 20]
    for rep in range(reps):
        for v in range(0, 18):
            for ln in range(0, 43):
                hrp = rng.choice(hrps)
                prog = bytes(rng.randrange(256) for _ in range(ln))
                a = R.encode(hrp, v, prog)
                want = S.encode(hrp, v, prog)
                n += 1
                check(a == want, f"encode({hrp!r}, {v}, {prog.hex()}) = {a!r}, spec {want!r}")
                if want is None:
                    continue
                got = R.decode(hrp, want)
                check(tuple(got) == (v, list(prog)), f"decode(encode(...)) != identity for version {v}, {ln} bytes")
                # mutations
                s = list(want)
                for _ in range(3):
                    t = list(s)
                    op = rng.randrange(7)
                    if op == 0:
                        for _k in range(rng.randrange(1, 5)):
                            t[rng.randrange(len(t))] = rng.choice(S.CHARSET + "1bioBC")
                    elif op == 1:
                        t.insert(rng.randrange(len(t) + 1), rng.choice(S.CHARSET + "1"))
                    elif op == 2:
                        del t[rng.randrange(len(t))]
                    elif op == 3:
                        i = rng.randrange(len(t))
                        t[i] = t[i].upper()
                    elif op == 4:
                        t = [c.upper() for c in t]
                    elif op == 5:
                        # characters outside ASCII whose case mapping lands in ASCII (U+212A KELVIN SIGN lowers to 'k',
                        # U+017F upper-cases to 'S', U+0130 / U+0131 are dotted / dotless i) and plain non-ASCII ones
                        t = [c.upper() for c in t] if rng.random() < 0.7 else t
                        for i, c in enumerate(t):
                            if c in "Kk" and rng.random() < 0.6:
                                t[i] = "\u212a"
                                break
                        else:
                            t[rng.randrange(len(t))] = rng.choice(["\u212a", "\u017f", "\u0130", "\u0131", "\u00e9", "\uff21", "\x7f", "\x80", " "])
                    else:
                        # an address whose real prefix merely STARTS with the expected one (the separator is the LAST '1')
                        hrp2 = hrp + rng.choice(["1", "1q", "1tcv", "c", "1" + hrp])
                        m2 = S.encode(hrp2, v, prog)
                        t = list(m2) if m2 else t
                    m = "".join(t)
                    w = S.decode(hrp, m)
                    g = R.decode(hrp, m)
                    gg = None if tuple(g) == (None, None) else (g[0], bytes(g[1]))
                    n += 1
                    check(gg == w, f"decode({hrp!r}, {m!r}) = {gg}, spec {w}")
                if hrp in ("bc", "tb") and v == 0 and ln in (20, 32):
                    check(H.bech32_decode_address(want) == prog, "helper.bech32_decode_address")
            if bad:
                break
        if bad:
            break
    o = dict(name="C11.bounded.differential", kind="bounded", backend="bounded", verdict="HELD" if bad is None else "VIOLATED", evaluations=n,
             bound=f"{reps} sweeps over 18 x 43 (version, length) pairs, random programs and prefixes, 3 mutations each; seed {item.get('seed', 0)}",
             clause="C11.bounded.differential")
    if bad:
        o.update(detail=bad, confirmed=True, replay=dict(confirmed=True, failed=[bad]))
    return [o]
