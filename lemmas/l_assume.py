"""Run-time conformance of the ASSUMED contracts of the trusted base (DESIGN §2.8) with the libraries that are
actually installed.  Bounded, labelled bounded, never counted as proved: it does not turn an assumption into a
theorem, it shows that the assumption is not already false on the boundary values and on seeded samples.  A
failure is a checker error (the proofs would rest on a false axiom), never a property violation."""
import hashlib
import hmac
import io
import json
import random
import unicodedata


def conformance(item):
    import ecdsa
    from ecdsa import SECP256k1, SigningKey, VerifyingKey
    from ecdsa.errors import MalformedPointError
    n = SECP256k1.order
    G = SECP256k1.generator
    rng = random.Random(item.get("seed", 0) * 31 + 5)
    bad = []
    evals = 0

    def chk(name, cond):
        nonlocal evals
        evals += 1
        if not cond:
            bad.append(name)

    def raises(f, *a, **k):
        try:
            f(*a, **k)
        except BaseException:
            return True
        return False
    scalars = [1, 2, 3, n - 1, n - 2, (n - 1) // 2, (n + 1) // 2, 2 ** 255, 2 ** 128 - 1] + [rng.randrange(1, n) for _ in range(12)]
    # ---- B1-B5 int <-> bytes
    for v in [0, 1, 255, 256, 2 ** 31 - 1, 2 ** 32 - 1, 2 ** 256 - 1] + scalars[:6]:
        for L in (1, 4, 32, 33):
            fits = v < 256 ** L
            chk("B.to_bytes_raises_iff_too_big", raises(v.to_bytes, L, "big") == (not fits))
            if fits:
                b = v.to_bytes(L, "big")
                chk("B.len", len(b) == L)
                chk("B.roundtrip", int.from_bytes(b, "big") == v and int.from_bytes(v.to_bytes(L, "little"), "little") == v)
                chk("B.le_is_reversed_be", v.to_bytes(L, "little") == b[::-1])
    chk("B.negative_raises", raises((-1).to_bytes, 4, "big"))
    a, b = rng.randbytes(5), rng.randbytes(7)
    chk("B.concat", int.from_bytes(a + b, "big") == int.from_bytes(a, "big") * 256 ** 7 + int.from_bytes(b, "big"))
    chk("B.zero", int.from_bytes(bytes(9), "big") == 0 and int.from_bytes(b"", "big") == 0)
    # ---- H1-H4 hashes
    for m in (b"", b"abc", rng.randbytes(200)):
        chk("H.sha256_len", len(hashlib.sha256(m).digest()) == 32 and hashlib.sha256(m).digest() == hashlib.sha256(bytes(m)).digest())
        chk("H.sha512_len", len(hashlib.sha512(m).digest()) == 64)
        chk("H.hmac_len", len(hmac.new(b"k", m, hashlib.sha512).digest()) == 64 and hmac.new(b"k", m, hashlib.sha512).digest() == hmac.new(b"k", m, hashlib.sha512).digest())
    chk("H.pbkdf2_len", len(hashlib.pbkdf2_hmac("sha512", b"p", b"s", 2048, 64)) == 64 and len(hashlib.pbkdf2_hmac("sha512", b"p", b"s", 2048)) == 64)
    chk("H.nfkd_ascii_identity", all(unicodedata.normalize("NFKD", s) == s for s in ("mnemonic", "abandon about", "Bitcoin seed", "")))
    chk("H.nfkd_idempotent", all(unicodedata.normalize("NFKD", unicodedata.normalize("NFKD", s)) == unicodedata.normalize("NFKD", s) for s in ("Åﬁ①", "café", "パス")))
    # ---- E1-E6 ecdsa
    for v in (0, n, n + 1, 2 ** 256 - 1):
        chk("E1.from_string_rejects_out_of_range", raises(SigningKey.from_string, v.to_bytes(32, "big"), curve=SECP256k1))
    for v in (0, -1, n, n + 1, 2 ** 256):
        chk("E1.from_secret_exponent_rejects_out_of_range", raises(SigningKey.from_secret_exponent, v, curve=SECP256k1))
    for v in (1, n - 1):
        chk("E1.from_secret_exponent_is_from_string", SigningKey.from_secret_exponent(v, curve=SECP256k1).to_string() == v.to_bytes(32, "big"))
    for L in (0, 1, 31, 33, 64):
        chk("E1.from_string_rejects_wrong_length", raises(SigningKey.from_string, b"\x01" * L, curve=SECP256k1))
    for k in scalars:
        sk = SigningKey.from_string(k.to_bytes(32, "big"), curve=SECP256k1)
        chk("E2.to_string_is_be32", sk.to_string() == k.to_bytes(32, "big"))
        vk = sk.get_verifying_key()
        P = k * G
        chk("E3.verifying_key_is_kG", vk.pubkey.point.x() == P.x() and vk.pubkey.point.y() == P.y())
        c = vk.to_string("compressed")
        u = vk.to_string("uncompressed")
        chk("E4.sec_compressed", len(c) == 33 and c[0] == 2 + (P.y() & 1) and c[1:] == P.x().to_bytes(32, "big"))
        chk("E4.sec_uncompressed", len(u) == 65 and u[0] == 4 and u[1:33] == P.x().to_bytes(32, "big") and u[33:] == P.y().to_bytes(32, "big"))
        chk("E4.raw", vk.to_string() == u[1:])
        for enc in (c, u, u[1:]):
            q = VerifyingKey.from_string(enc, curve=SECP256k1).pubkey.point
            chk("E5.parse_inverts_encode", q.x() == P.x() and q.y() == P.y())
        chk("E5.from_public_point", VerifyingKey.from_public_point(P, curve=SECP256k1).to_string("compressed") == c)
        # wrong parity byte gives the negated point, wrong prefixes / lengths are refused
        q = VerifyingKey.from_string(bytes([c[0] ^ 1]) + c[1:], curve=SECP256k1).pubkey.point
        chk("E5.other_parity_is_negation", q.x() == P.x() and q.y() == SECP256k1.curve.p() - P.y())
        for enc in (b"\x05" + c[1:], b"\x00" + c[1:], c[:-1], c + b"\x00", b"\x04" + c[1:], u[:-1]):
            chk("E5.malformed_refused", raises(VerifyingKey.from_string, enc, curve=SECP256k1))
        k2 = scalars[(scalars.index(k) + 3) % len(scalars)]
        S = k * G + k2 * G
        T = ((k + k2) % n) * G
        chk("E6.group_law", (S == T) if (k + k2) % n else (S == ecdsa.ellipticcurve.INFINITY))
    chk("E6.order", n * G == ecdsa.ellipticcurve.INFINITY and (n - 1) * G + G == ecdsa.ellipticcurve.INFINITY)
    # an x that is not on the curve is refused (x = 5 has no square root for secp256k1's y^2 = x^3 + 7)
    chk("E5.off_curve_refused", raises(VerifyingKey.from_string, b"\x02" + (5).to_bytes(32, "big"), curve=SECP256k1))
    # ---- R1 SystemRandom
    import os
    sr = random.SystemRandom()
    drawn = []
    real = os.urandom
    real_r = random._urandom
    try:
        def spy(nbytes):
            drawn.append(nbytes)
            return real(nbytes)
        random._urandom = spy
        for bits in (128, 160, 192, 224, 256):
            drawn.clear()
            v = sr.getrandbits(bits)
            chk("R1.range", 0 <= v < 2 ** bits)
            chk("R1.bytes_drawn", drawn == [(bits + 7) // 8])
    finally:
        random._urandom = real_r
    # ---- L1 json / argparse
    data = {"a": [["m/44'/0'/0'/0/0", "addr", "02ab", None], []], "b": {"c": None, "d": "é"}, "e": ""}
    for ind in (None, 2, 4):
        chk("L1.json_roundtrip", json.loads(json.dumps(data, indent=ind)) == data)
    import argparse
    import contextlib

    def seven(s):
        if s != "7":
            raise argparse.ArgumentError(None, "not seven")
        return 7
    p = argparse.ArgumentParser()
    p.add_argument("--x", type=seven, default=0)
    p.add_argument("--two", nargs=2, type=int, default=[0, 20])
    p.add_argument("--c", type=int, choices=[12, 24], default=24)
    ns = p.parse_args([])
    chk("L1.type_not_applied_to_non_string_defaults", ns.two == [0, 20] and ns.c == 24)
    chk("L1.type_applied_to_values", p.parse_args(["--x", "7"]).x == 7 and p.parse_args(["--two", "1", "2"]).two == [1, 2])
    for argv in (["--x", "8"], ["--two", "1"], ["--two", "1", "x"], ["--c", "13"], ["--nope"], ["extra"]):
        code = None
        with contextlib.redirect_stderr(io.StringIO()), contextlib.redirect_stdout(io.StringIO()):
            try:
                p.parse_args(argv)
            except SystemExit as e:
                code = e.code
        chk("L1.bad_vector_exits_2", code == 2)
    o = dict(name="assumptions.conformance", kind="bounded", backend="bounded",
             verdict="HELD" if not bad else "ERROR", evaluations=evals,
             bound=f"{evals} run-time checks of the assumed library contracts B/H/E/R/L (DESIGN 2.8) against the installed libraries (boundary values + seeded samples)",
             clause="assumptions.conformance")
    if bad:
        o["reason"] = "assumed library contract does not hold here: " + ", ".join(sorted(set(bad)))
    return [o]
