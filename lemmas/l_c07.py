"""C07 lemma: every 82-byte Base58Check payload+checksum starting with one of the twelve version prefixes has
exactly 111 Base58 characters (with encode_base58 = '1'^lz ++ digits, C10)."""
import z3
from .util import prove, held
from contracts.c_wallet_utils import SLIP132


def length_111(item):
    out = []
    v = z3.Int("v")
    for ver in sorted(SLIP132):
        lo, hi = ver * 256 ** 78, (ver + 1) * 256 ** 78
        out.append(prove(f"C07.lemma.111_characters[{ver:08x}]", z3.Implies(z3.And(v >= lo, v < hi), z3.And(v >= 58 ** 110, v < 58 ** 111)),
                         statement=f"82 bytes starting {ver:08x} have exactly 111 Base58 digits (first byte 04 is non-zero: no '1' padding)"))
    import btc_hd_wallet.wallet_utils as wu
    table = {}
    for net, t in (("main", wu.Version.main), ("test", wu.Version.test)):
        for kt, d in t.items():
            for bipn, val in d.items():
                table[val] = (kt == "PRV", ["BIP44", "BIP49", "BIP84"].index(bipn), net == "test")
    out.append(held("C07.enum.version_tables_are_slip132", table == SLIP132, statement="Version.main / Version.test hold exactly the twelve SLIP-132 constants",
                    detail={hex(k): v for k, v in table.items()},
                    witness_code="def still_fails():\n    import btc_hd_wallet.wallet_utils as wu\n    return wu.Version.main['PUB']['BIP44'] != 0x0488B21E\n"))
    return out
