"""C20 bounded stand-in (labelled bounded, never counted as proved): the process-level clauses - exit status,
nothing on stdout, no file created, an existing file untouched, stdout/file JSON equal to the API result - are
statements about argparse, the interpreter and the file system.  A seeded harness drives the five sub-commands and
both sides of every validator bound, in-process (main() with patched argv) and via `python -m btc_hd_wallet`."""
import io
import json
import os
import random
import re
import shutil
import subprocess
import sys
import tempfile
from contextlib import redirect_stderr, redirect_stdout

MN = "legal winner thank year wave sausage worth useful legal winner thank yellow"
ENT = "7f" * 16
SEED = "ab" * 64
XPRV = "xprv9s21ZrQH143K3QTDL4LXw2F7HEK3wJUD2nW2nRk4stbPy6cq3jPPqjiChkVvvNKmPGJxWUtg6LnF5kejMRNNU3TGtRBeJgk33yuGBxrMPHi"


def api_result(cmd, args, testnet, account, interval, paranoia, password):
    from btc_hd_wallet import PaperWallet
    from btc_hd_wallet.__main__ import paranoia_mode
    if cmd == "from-mnemonic":
        w = PaperWallet.from_mnemonic(mnemonic=args, password=password, testnet=testnet)
    elif cmd == "from-entropy-hex":
        w = PaperWallet.from_entropy_hex(entropy_hex=args, password=password, testnet=testnet)
    elif cmd == "from-bip39-seed":
        w = PaperWallet.from_bip39_seed_hex(bip39_seed=args, testnet=testnet)
    elif cmd == "from-master-xprv":
        w = PaperWallet.from_extended_key(extended_key=args)
    else:
        return None
    d = w.generate(account=account, interval=interval)
    return paranoia_mode(d) if paranoia else d


def run_inprocess(argv):
    import btc_hd_wallet.__main__ as M
    out, err = io.StringIO(), io.StringIO()
    old = sys.argv
    sys.argv = ["btc_hd_wallet"] + argv
    code = 0
    try:
        with redirect_stdout(out), redirect_stderr(err):
            try:
                M.main()
            except SystemExit as e:
                code = 0 if e.code is None else (e.code if isinstance(e.code, int) else 1)
    except Exception as e:      # an uncaught exception ends a real process with status 1
        code = 1
        err.write(repr(e))
    finally:
        sys.argv = old
    return code, out.getvalue(), err.getvalue()


def run_subprocess(argv, cwd):
    env = dict(os.environ, PYTHONPATH=os.environ.get("VERIF_REPO", "/repo"))
    r = subprocess.run([sys.executable, "-m", "btc_hd_wallet"] + argv, capture_output=True, text=True, cwd=cwd, env=env, timeout=120)
    return r.returncode, r.stdout, r.stderr


BAD_KINDS = ["account_hi", "account_neg", "interval_hi", "interval_nan", "mnemonic_words", "seed_len", "entropy_len",
             "xprv_len", "file_dir", "no_command", "unknown_option", "option_after_command", "misspelt_option_after",
             "extra_positional", "malformed_xprv", "xpub_given", "entropy_nonhex", "seed_nonhex", "write_fails"]
NEEDS_CMD = {"mnemonic_words": "from-mnemonic", "seed_len": "from-bip39-seed", "entropy_len": "from-entropy-hex", "xprv_len": "from-master-xprv",
             "malformed_xprv": "from-master-xprv", "xpub_given": "from-master-xprv", "entropy_nonhex": "from-entropy-hex", "seed_nonhex": "from-bip39-seed"}
XPUB = "xpub661MyMwAqRbcFtXgS5sYJABqqG9YLmC4Q1Rdap9gSE8NqtwybGhePY2gZ29ESFjqJoCu1Rupje8YtGqsefD265TMg7usUDFdp6W1EGMcet8"


def cases(rng, n):
    good_cmds = [("from-mnemonic", MN), ("from-entropy-hex", ENT), ("from-bip39-seed", SEED), ("from-master-xprv", XPRV)]
    out = []
    for _ in range(n):
        cmd, arg = rng.choice(good_cmds)
        testnet = rng.random() < 0.5 and cmd != "from-master-xprv"
        paranoia = rng.random() < 0.5
        account = rng.choice([0, 1, 7, 2 ** 31 - 2])
        a = rng.choice([0, 1, 5, 2 ** 31 - 3])
        interval = (a, a + rng.choice([0, 1, 2]))
        password = rng.choice(["", "pw", "päss"]) if cmd in ("from-mnemonic", "from-entropy-hex") else ""
        file = rng.choice([None, "new", "new.json", "existing"])
        k = len(out)
        # every kind of bad vector once (in this order), then good and bad vectors at random
        bad = BAD_KINDS[k] if k < len(BAD_KINDS) else rng.choice([None, None, None] + BAD_KINDS)
        if bad in NEEDS_CMD:
            cmd, arg = [g for g in good_cmds if g[0] == NEEDS_CMD[bad]][0]
            testnet = testnet and cmd != "from-master-xprv"
            password = password if cmd in ("from-mnemonic", "from-entropy-hex") else ""
        if bad == "write_fails":
            file = "dangling"
        out.append(dict(cmd=cmd, arg=arg, testnet=testnet, paranoia=paranoia, account=account, interval=interval, password=password, file=file, bad=bad))
    return out


def harness(item):
    rng = random.Random(item.get("seed", 0) * 101 + 20)
    n = len(BAD_KINDS) + (12 if item.get("tier") == "quick" else 150)
    bad = None
    evals = 0

    def check(cond, what):
        nonlocal bad
        if not cond and bad is None:
            bad = what
    tmp = tempfile.mkdtemp(prefix="c20_")
    try:
        for idx, c in enumerate(cases(rng, n)):
            d = os.path.join(tmp, f"case{idx}")
            os.mkdir(d)
            existing = os.path.join(d, "existing")
            open(existing, "w").write("KEEP")
            open(os.path.join(d, "existing.json"), "w").write("KEEP")
            os.mkdir(os.path.join(d, "adir"))
            # decoy siblings of every name the run may be asked to write (temporary / backup / extension variants)
            for base in ("new", "new.json"):
                for pat in ("{}.tmp", "{}.bak", "{}~", ".{}.swp", "{}.part", "{}.json", "{}.txt"):
                    nme = pat.format(base)
                    if nme not in ("new.json",) and not os.path.exists(os.path.join(d, nme)):
                        open(os.path.join(d, nme), "w").write("KEEP-" + nme)
            argv = []
            fpath = None
            if c["file"] == "dangling":
                fpath = os.path.join(d, "dangling")
                os.symlink(os.path.join(d, "no_such_dir", "target.json"), fpath)
                argv += ["--file", fpath]
            elif c["file"]:
                fpath = os.path.join(d, c["file"])
                argv += ["--file", fpath]
            if c["testnet"]:
                argv.append("--testnet")
            if c["paranoia"]:
                argv.append("--paranoia")
            account, interval, arg, cmd = c["account"], c["interval"], c["arg"], c["cmd"]
            invalid = c["file"] == "existing"
            b = c["bad"]
            acc_s, iv_s = str(account), [str(interval[0]), str(interval[1])]
            if b == "account_hi":
                acc_s, invalid = str(2 ** 31 - 1), True
            elif b == "account_neg":
                acc_s, invalid = "-1", True
            elif b == "interval_hi":
                iv_s, invalid = ["0", str(2 ** 32 - 1)], True
            elif b == "interval_nan":
                iv_s, invalid = ["0", "x"], True
            argv += ["--account", acc_s, "--interval"] + iv_s
            if b == "file_dir":
                argv = ["--file", os.path.join(d, "adir")] + [a for a in argv if a not in ("--file", fpath)]
                fpath, invalid = None, True
            if b == "no_command":
                invalid = True
            else:
                if b == "mnemonic_words" and cmd == "from-mnemonic":
                    arg, invalid = "legal winner thank", True
                if b == "seed_len" and cmd == "from-bip39-seed":
                    arg, invalid = SEED[:-2], True
                if b == "entropy_len" and cmd == "from-entropy-hex":
                    arg, invalid = ENT + "00", True
                if b == "xprv_len" and cmd == "from-master-xprv":
                    arg, invalid = XPRV[:-1], True
                # values that pass the length validators but cannot build / generate a wallet
                if b == "malformed_xprv":
                    arg, invalid = XPRV[:-1] + ("j" if XPRV[-1] != "j" else "k"), True
                if b == "xpub_given":
                    arg, invalid = XPUB, True
                if b == "entropy_nonhex":
                    arg, invalid = "zz" * 16, True
                if b == "seed_nonhex":
                    arg, invalid = "zz" * 64, True
                argv += [cmd, arg]
                if c["password"]:
                    argv += ["--password", c["password"]]
                # argparse only accepts the global options BEFORE the sub-command
                if b == "option_after_command":
                    argv += [rng.choice(["--paranoia", "--testnet"])]
                    invalid = True
                if b == "misspelt_option_after":
                    argv += ["--acount", "5"]
                    invalid = True
                if b == "extra_positional":
                    argv += ["extra"]
                    invalid = True
            if b == "write_fails":
                invalid = True          # the target passes the file_ validator but cannot be written
            if b == "unknown_option":
                argv = ["--frobnicate"] + argv
                invalid = True
            keep = [f for f in os.listdir(d) if os.path.isfile(os.path.join(d, f))]
            before = {f: open(os.path.join(d, f)).read() for f in keep}
            listing_before = set(os.listdir(d))
            runs = [("in-process", run_inprocess(argv))]
            if idx % 4 == 0 and fpath is None:
                runs.append(("subprocess", run_subprocess(argv, d)))
            for how, (code, out, err) in runs:
                evals += 1
                tag = f"{how} argv={argv!r}"
                after = {f: (open(os.path.join(d, f)).read() if os.path.isfile(os.path.join(d, f)) else None) for f in keep}
                check(after == before, f"{tag}: an existing file was modified or removed: {[f for f in keep if after[f] != before[f]]}")
                if invalid:
                    check(code != 0, f"{tag}: invalid arguments but exit status 0")
                    check(not any(k in out for k in ('"groups"', '"MASTER"', '"account_extended_keys"', MN)) and not re.search(r"[xyztuv]p(rv|ub)[1-9A-HJ-NP-Za-km-z]{90,}", out), f"{tag}: wallet data on stdout despite invalid arguments / a failed run")
                    check(set(os.listdir(d)) == listing_before, f"{tag}: a file was created despite invalid arguments")
                else:
                    check(code == 0, f"{tag}: valid arguments but exit status {code}: {err[-200:]}")
                    want = api_result(cmd, arg, c["testnet"], account, interval, c["paranoia"], c["password"])
                    if fpath:
                        ok = os.path.exists(fpath)
                        check(ok, f"{tag}: requested file was not created")
                        if ok:
                            check(json.loads(open(fpath).read()) == want, f"{tag}: file content differs from the API result")
                            os.remove(fpath)
                        check(out.strip() == "", f"{tag}: wallet data printed although --file was given")
                    else:
                        try:
                            got = json.loads(out)
                        except Exception:
                            got = None
                        check(got == want, f"{tag}: stdout JSON differs from the API result")
                    new = set(os.listdir(d)) - listing_before
                    check(not new, f"{tag}: unexpected files created: {sorted(new)}")
                    if want and not c["paranoia"]:
                        for sec, purpose in (("BIP44", "44'"), ("BIP49", "49'"), ("BIP84", "84'")):
                            for row in want[sec]["groups"]:
                                parts = row[0].split("/")
                                check(len(parts) == 6 and parts[1] == purpose and parts[2].endswith("'") and parts[3].endswith("'")
                                      and not parts[4].endswith("'") and not parts[5].endswith("'"), f"{tag}: row path {row[0]} is not BIP44-shaped")
            if bad:
                break
    finally:
        shutil.rmtree(tmp, ignore_errors=True)
    o = dict(name="C20.bounded.process_level", kind="bounded", backend="bounded", verdict="HELD" if bad is None else "VIOLATED", evaluations=evals,
             bound=f"{n} seeded argument vectors over the sub-commands and both sides of every validator bound, each of {len(BAD_KINDS)} kinds of bad vector at least once (in-process; every 4th also as a subprocess); seed {item.get('seed', 0)}",
             clause="C20.bounded.process_level")
    if bad:
        o.update(detail=bad, confirmed=True, replay=dict(confirmed=True, failed=[bad]))
    return [o]
