"""C02 Layer-2 lemma: public derivation agrees with private derivation, from the two ckd CONTRACTS (the spec
terms they are proved against) and the group axioms E5:  neuter(CKDpriv(k, c, i)) == CKDpub(k*G, c, i)  for every
normal index and every PRF output with IL in [1, n-1]; the invalid cases coincide."""
import z3
from .util import prove
from pyvc import prims as U
from pyvc import logic as L
from pyvc.logic import FactSink, Rope, land, lor, lnot, implies, eq


def step(item):
    from contracts.common import spec_prv_ckd_terms, spec_pub_ckd_terms, N, HARD, serP
    FactSink.current = FactSink()
    S = FactSink.current
    k = z3.Int("k")
    i = z3.Int("i")
    ccv = z3.Int("cc")
    hy = [k >= 1, k < N, i >= 0, i < HARD, ccv >= 0, ccv < 256 ** 32]
    cc = Rope([(ccv, 32, False)])
    IL, IR, ki = spec_prv_ckd_terms(k, cc, i)
    K = U.ecmul(k)
    keyP = serP(K)
    ok, ptP = U.sec_parse(keyP)
    ILp, IRp, Ki = spec_pub_ckd_terms(keyP, ptP, cc, i)
    facts = list(S.facts)
    out = []
    out.append(prove("C02.lemma.step.same_prf_input", z3.And(IL == ILp, L.tobool(IR.eq(IRp))), hyps=hy + facts,
                     statement="for a normal index both derivations feed HMAC-SHA512 with chain code and serP(K_par) || ser32(i): same IL and IR"))
    valid = z3.And(IL >= 1, IL < N)
    kiG = U.ecmul(ki)
    facts = list(S.facts)
    out.append(prove("C02.lemma.step.public_key_agrees", z3.Implies(valid, L.tobool(Ki.sym_eq(kiG))), hyps=hy + facts,
                     statement="IL*G + k*G == ((IL + k) mod n)*G : the child public key of CKDpub is the public key of the CKDpriv child"))
    out.append(prove("C02.lemma.step.serialised_key_agrees", z3.Implies(valid, L.tobool(serP(Ki).eq(serP(kiG)))), hyps=hy + list(S.facts),
                     statement="hence the compressed keys, fingerprints and serialised extended public keys agree"))
    out.append(prove("C02.lemma.step.invalid_cases_coincide", z3.Implies(valid, L.tobool(Ki.sym_eq(U.inf())) == (ki == 0)), hyps=hy + list(S.facts),
                     statement="the public child is the point at infinity exactly when the private child key is zero"))
    out.append(prove("C02.lemma.step.public_key_parse_accepts_serP", L.tobool(ok), hyps=hy + list(S.facts),
                     statement="serP(k*G) is accepted by the public-key parser and denotes k*G (so the neutered node is a valid PubKeyNode)"))
    out.append(prove("C02.lemma.step.parsed_point_is_kG", L.tobool(ptP.sym_eq(K)), hyps=hy + list(S.facts), statement="unsec(serP(k*G)) = k*G"))
    return out
