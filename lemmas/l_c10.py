"""C10 Layer-2 lemmas (code-independent): the spec functions used by the contracts of
encode_base58 / decode_base58 are mutually inverse.  Recursive spec functions are uninterpreted;
each lemma is discharged as base + step obligations with the induction hypothesis and the needed
definitional unfoldings given as explicit instances (DESIGN §2.5 'induction schema').  The
induction rule itself (over n / over the length of the string) is the only meta-level step."""
import z3
from .util import prove, held
from pyvc.seqs import ISeq, Table, _rep, be
from spec import base58 as SB

A58 = SB.ALPHABET
ONE = ord("1")
chars58 = z3.Function("chars58", z3.IntSort(), ISeq)
val58 = z3.Function("val58", ISeq, z3.IntSort())
allin = z3.Function("allin58", ISeq, z3.BoolSort())


def table_facts(t):
    """bijection facts of the alphabet table, established by enumerating the real constant"""
    d = z3.Int("d")
    c = z3.Int("c")
    facts = list(t.ground)
    return facts


def defs(n=None, s=None, c=None, t=None):
    """definitional unfoldings as instances"""
    out = []
    if n is not None:
        out.append(z3.Implies(n > 0, chars58(n) == z3.Concat(chars58(n / 58), z3.Unit(t.CHf(n % 58)))))
        out.append(z3.Implies(n <= 0, chars58(n) == z3.Empty(ISeq)))
    if s is not None and c is not None:
        sc = z3.Concat(s, z3.Unit(c))
        out.append(val58(sc) == 58 * val58(s) + t.IDXf(c))
        out.append(allin(sc) == z3.And(allin(s), t.INf(c)))
    out.append(val58(z3.Empty(ISeq)) == 0)
    out.append(allin(z3.Empty(ISeq)))
    return out


def digit_facts(t, d):
    """0 <= d < 58  =>  IN(CH(d)), IDX(CH(d)) = d, and CH(d) = '1' iff d = 0"""
    return [z3.Implies(z3.And(d >= 0, d < 58), z3.And(t.INf(t.CHf(d)), t.IDXf(t.CHf(d)) == d, (t.CHf(d) == ONE) == (d == 0))),
            ]


def char_facts(t, c):
    """IN(c) => 0 <= IDX(c) < 58, CH(IDX(c)) = c, and IDX(c) = 0 iff c = '1'"""
    return [z3.Implies(t.INf(c), z3.And(t.IDXf(c) >= 0, t.IDXf(c) < 58, t.CHf(t.IDXf(c)) == c, (t.IDXf(c) == 0) == (c == ONE)))]


def lemmas(item):
    out = []
    t = Table.of(A58)
    # ---- T: the table facts themselves, by complete enumeration of the spec alphabet (58 entries)
    ok = all(A58.index(ch) == i for i, ch in enumerate(A58)) and len(set(A58)) == 58 and A58[0] == "1"
    out.append(held("C10.lemma.table.bijection", ok, statement="the 58 alphabet characters are pairwise distinct, '1' is digit 0",
                    witness_code="def still_fails():\n    return False\n"))
    import btc_hd_wallet.helper as helper
    out.append(held("C10.lemma.table.constant", helper.BASE58_ALPHABET == A58,
                    statement="helper.BASE58_ALPHABET is the Bitcoin Base58 alphabet (the table abstraction is built from the real constant)",
                    detail=helper.BASE58_ALPHABET,
                    witness_code="def still_fails():\n    import btc_hd_wallet.helper as h\n    return h.BASE58_ALPHABET != '123456789ABCDEFGHJKLMNPQRSTUVWXYZabcdefghijkmnopqrstuvwxyz'\n"))
    d = z3.Int("d")
    c = z3.Int("c")
    # digit_facts / char_facts are consequences of the ground table: prove them for symbolic d, c
    g = t.ground
    inrange = z3.And(d >= 0, d < 58)
    IN_def = t.INf(c) == z3.Or(*[c == ord(ch) for ch in A58])
    IN_def_d = t.INf(t.CHf(d)) == z3.Or(*[t.CHf(d) == ord(ch) for ch in A58])
    cases_d = z3.Or(*[d == i for i in range(58)])
    out.append(prove("C10.lemma.table.digit_facts", z3.And(*digit_facts(t, d)), hyps=g + [IN_def_d, z3.Implies(inrange, cases_d)],
                     statement="0<=d<58 => IN(CH(d)) and IDX(CH(d)) = d and (CH(d) = '1' <=> d = 0)"))
    out.append(prove("C10.lemma.table.char_facts", z3.And(*char_facts(t, c)), hyps=g + [IN_def],
                     statement="IN(c) => 0 <= IDX(c) < 58 and CH(IDX(c)) = c and (IDX(c) = 0 <=> c = '1')"))

    n = z3.Int("n")
    m = n / 58
    r = n % 58
    # ---- L1: val58(chars58(n)) = n and allin(chars58(n)), for all n >= 0   (strong induction on n)
    ih = z3.Implies(z3.And(m >= 0, m < n), z3.And(val58(chars58(m)) == m, allin(chars58(m))))
    hy = defs(n=n, s=chars58(m), c=t.CHf(r), t=t) + digit_facts(t, r) + [ih]
    out.append(prove("C10.lemma.val_of_chars.step", z3.Implies(n > 0, z3.And(val58(chars58(n)) == n, allin(chars58(n)))), hyps=hy,
                     statement="n > 0, IH at n div 58  =>  val58(chars58(n)) = n and allin(chars58(n))"))
    out.append(prove("C10.lemma.val_of_chars.base", z3.And(val58(chars58(0)) == 0, allin(chars58(0))), hyps=defs(n=z3.IntVal(0), t=t),
                     statement="val58(chars58(0)) = 0"))
    # ---- L1b: chars58(n) is non-empty and does not start with '1' for n > 0 (most significant digit is non-zero)
    first = lambda s: s[0]     # noqa: E731
    ihb = z3.Implies(m > 0, z3.And(z3.Length(chars58(m)) > 0, chars58(m)[0] != ONE))
    hyb = defs(n=n, s=chars58(m), c=t.CHf(r), t=t) + defs(n=m, t=t) + digit_facts(t, r) + [ihb]
    out.append(prove("C10.lemma.no_leading_one.step",
                     z3.Implies(n > 0, z3.And(z3.Length(chars58(n)) > 0, chars58(n)[0] != ONE)), hyps=hyb,
                     statement="n > 0, IH at n div 58 => chars58(n) is non-empty and its first character is not '1'"))
    # ---- L2: chars58(val58(u)) = u for u in the alphabet, non-empty, not starting with '1'  (induction on |u|, snoc form)
    u = z3.Const("u", ISeq)
    v = val58(u)
    uc = z3.Concat(u, z3.Unit(c))
    nonlead = lambda s: z3.And(z3.Length(s) > 0, s[0] != ONE)      # noqa: E731
    ih2 = z3.Implies(z3.And(allin(u), nonlead(u)), z3.And(chars58(v) == u, v > 0))
    vv = 58 * v + t.IDXf(c)
    hy2 = defs(s=u, c=c, t=t) + char_facts(t, c) + [ih2] + defs(n=vv, t=t) + [
        # |u| = 0 : uc = [c]
        z3.Implies(z3.Length(u) == 0, z3.And(u == z3.Empty(ISeq), uc[0] == c)),
        z3.Implies(z3.Length(u) > 0, uc[0] == u[0]),
        z3.Implies(z3.And(v >= 0, t.IDXf(c) >= 0, t.IDXf(c) < 58), z3.And(vv / 58 == v, vv % 58 == t.IDXf(c))),
        z3.Implies(z3.Length(u) == 0, v == 0),
    ] + defs(n=z3.IntVal(0), t=t)
    out.append(prove("C10.lemma.chars_of_val.step",
                     z3.Implies(z3.And(allin(uc), nonlead(uc), z3.Or(z3.Length(u) == 0, v > 0) if False else True,
                                       z3.Implies(z3.Length(u) > 0, v > 0) if False else True),
                                z3.And(chars58(val58(uc)) == uc, val58(uc) > 0)), hyps=hy2,
                     statement="allin(u++[c]), u++[c] does not start with '1', IH for u  =>  chars58(val58(u++[c])) = u++[c] and val58(u++[c]) > 0"))
    # ---- L3: val58('1'^z ++ w) = val58(w): by snoc-induction on w with base val58('1'^z) = 0 (induction on z)
    z = z3.Int("z")
    onesz = _rep(z3.IntVal(ONE), z)
    onesz1 = _rep(z3.IntVal(ONE), z + 1)
    hy3 = [onesz1 == z3.Concat(onesz, z3.Unit(z3.IntVal(ONE))), val58(onesz) == 0, allin(onesz)] + \
        defs(s=onesz, c=z3.IntVal(ONE), t=t) + char_facts(t, z3.IntVal(ONE)) + [t.INf(z3.IntVal(ONE)) == z3.Or(*[z3.IntVal(ONE) == ord(ch) for ch in A58])] + g
    out.append(prove("C10.lemma.ones_value_zero.step", z3.Implies(z >= 0, z3.And(val58(onesz1) == 0, allin(onesz1))), hyps=hy3,
                     statement="val58('1'^z) = 0 and allin('1'^z)  =>  the same for z+1"))
    out.append(prove("C10.lemma.ones_value_zero.base", z3.And(val58(_rep(z3.IntVal(ONE), z3.IntVal(0))) == 0, allin(_rep(z3.IntVal(ONE), z3.IntVal(0)))),
                     hyps=[_rep(z3.IntVal(ONE), z3.IntVal(0)) == z3.Empty(ISeq)] + defs(t=t), statement="val58('') = 0"))
    w = z3.Const("w", ISeq)
    pw = z3.Concat(onesz, w)
    pwc = z3.Concat(onesz, z3.Concat(w, z3.Unit(c)))
    hy4 = defs(s=w, c=c, t=t) + defs(s=pw, c=c, t=t) + [val58(pw) == val58(w), allin(pw) == allin(w),
                                                      pwc == z3.Concat(pw, z3.Unit(c))]
    out.append(prove("C10.lemma.leading_ones_ignored.step",
                     z3.And(val58(pwc) == val58(z3.Concat(w, z3.Unit(c))), allin(pwc) == allin(z3.Concat(w, z3.Unit(c)))), hyps=hy4,
                     statement="val58('1'^z ++ w) = val58(w) and allin likewise  =>  the same for w ++ [c]"))
    return out


def roundtrip(item):
    """decode_base58(encode_base58(d)) = d for every non-empty d, from the two function contracts, the lemmas
    above and the byte-level facts about int.from_bytes / hex / bytes.fromhex (B-axioms, conformance-tested)"""
    from pyvc.models import minbe as minbe_term
    import pyvc.models as M
    out = []
    t = Table.of(A58)
    d, dp, e, ch, body, rest, r = [z3.Const(x, ISeq) for x in ("d", "dp", "e", "ch", "body", "rest", "r")]
    z, pad, N = z3.Ints("z pad N")
    Z0, O1 = z3.IntVal(0), z3.IntVal(ONE)
    minbe = lambda n: M._minbe(n)       # noqa: E731
    if M._minbe is None:
        from pyvc.logic import FactSink
        FactSink.current = FactSink()
        minbe_term(z3.IntVal(0))
    # decomposition of d into leading zeros and the rest
    decomp = [z >= 0, d == z3.Concat(_rep(Z0, z), dp), z3.Length(_rep(Z0, z)) == z, z3.Length(_rep(O1, z)) == z, z3.Length(d) >= 1,
              z3.Or(z3.Length(dp) == 0, dp[0] != 0)]
    # B-axioms (int.from_bytes ignores leading zero bytes; hex/fromhex give the minimal big-endian form)
    bax = [be(d) == be(dp), z3.Implies(z3.Length(dp) == 0, be(dp) == 0),
           z3.Implies(z3.Length(dp) > 0, z3.And(be(dp) > 0, M._minbe(be(dp)) == dp)), M._minbe(Z0) == z3.Unit(Z0)]
    # encode contract + lemmas L1, L1b, L3 instantiated at N = be(d)
    enc = [N == be(d), ch == chars58(N), e == z3.Concat(_rep(O1, z), ch),
           val58(ch) == N, allin(ch), z3.Implies(N > 0, z3.And(z3.Length(ch) > 0, ch[0] != ONE)), z3.Implies(N == 0, ch == z3.Empty(ISeq)),
           val58(e) == val58(ch)]
    # decode contract on s = e
    n = z3.Length(body)
    dec = [body == z3.SubSeq(e, 0, z3.If(z3.Length(e) > 0, z3.Length(e) - 1, 0)),
           r == z3.Concat(_rep(Z0, pad), M._minbe(val58(e))), pad >= 0, pad <= n,
           z3.SubSeq(body, 0, pad) == _rep(O1, pad), z3.Or(pad == n, body[pad] != ONE), z3.Length(_rep(O1, pad)) == pad,
           z3.Length(_rep(Z0, pad)) == pad]
    # element-wise facts of the repeated-character strings, instantiated at the two indices the argument needs
    j1, j2 = pad, z
    elem = [z3.Implies(z3.And(j1 >= 0, j1 < z), _rep(O1, z)[j1] == ONE), z3.Implies(z3.And(j2 >= 0, j2 < pad), _rep(O1, pad)[j2] == ONE),
            z3.Implies(z3.And(z >= 1, z - 1 < pad) if False else z3.BoolVal(True), z3.BoolVal(True))]
    hyps = decomp + bax + enc + dec + elem
    # case A: dp non-empty
    out.append(prove("C10.lemma.roundtrip.pad_equals_zero_count.nonzero_value", z3.Implies(z3.Length(dp) > 0, pad == z), hyps=hyps, timeout_ms=60000,
                     statement="d has a non-zero byte: the decoder's pad count equals the number of leading zero bytes"))
    out.append(prove("C10.lemma.roundtrip.nonzero_value", z3.Implies(z3.And(z3.Length(dp) > 0, pad == z), r == d), hyps=hyps, timeout_ms=60000,
                     statement="d has a non-zero byte: decode(encode(d)) = d"))
    # case B: d all zeros: e = '1'^z, value 0, minbe = [0], pad = z - 1
    rep_succ = [z3.Implies(z >= 1, z3.And(_rep(Z0, z) == z3.Concat(_rep(Z0, z - 1), z3.Unit(Z0)),
                                           _rep(O1, z) == z3.Concat(_rep(O1, z - 1), z3.Unit(O1)), z3.Length(_rep(O1, z - 1)) == z - 1,
                                           z3.Length(_rep(Z0, z - 1)) == z - 1))]
    elemB = [z3.Implies(z3.And(pad >= 0, pad < z - 1), _rep(O1, z - 1)[pad] == ONE)]
    out.append(prove("C10.lemma.roundtrip.all_zero.pad", z3.Implies(z3.Length(dp) == 0, pad == z - 1), hyps=hyps + rep_succ + elemB, timeout_ms=60000,
                     statement="d = 00^z (z >= 1): the pad count over s[:-1] is z - 1"))
    out.append(prove("C10.lemma.roundtrip.all_zero", z3.Implies(z3.And(z3.Length(dp) == 0, pad == z - 1), r == d), hyps=hyps + rep_succ, timeout_ms=60000,
                     statement="d = 00^z (z >= 1): decode(encode(d)) = 00^(z-1) ++ 00 = d"))
    return out


def canary(item):
    """a deliberately false lemma: must be refuted"""
    t = Table.of(A58)
    n = z3.Int("n")
    m, r = n / 58, n % 58
    ih = z3.Implies(z3.And(m >= 0, m < n), val58(chars58(m)) == m)
    hy = defs(n=n, s=chars58(m), c=t.CHf(r), t=t) + digit_facts(t, r) + [ih]
    o = prove("C10.canary.val_of_chars_plus_one", z3.Implies(n > 0, val58(chars58(n)) == n + 1), hyps=hy)
    o["kind"] = "canary"
    o["verdict"] = "CANARY_OK" if o["verdict"] == "REFUTED" else "CANARY_PASSED_VACUOUS"
    return [o]


def roundtrip_inverse(item):
    """encode_base58(decode_base58(s)) = s for every non-empty string s over the alphabet, from the two function
    contracts, lemma L2 (chars58(val58(u)) = u for u without a leading '1') and L3, and the byte-level B-axioms"""
    import pyvc.models as M
    from pyvc.logic import FactSink
    out = []
    if M._minbe is None:
        FactSink.current = FactSink()
        M.minbe(z3.IntVal(0))
    t = Table.of(A58)
    s, u, r, e2, body = [z3.Const(x, ISeq) for x in ("s", "u", "r", "e2", "body")]
    p, pad, V, lz = z3.Ints("p pad V lz")
    Z0, O1 = z3.IntVal(0), z3.IntVal(ONE)
    # decomposition of s into leading '1's and the rest
    decomp = [p >= 0, s == z3.Concat(_rep(O1, p), u), z3.Length(_rep(O1, p)) == p, z3.Length(_rep(Z0, p)) == p, z3.Length(s) >= 1, allin(s),
              z3.Or(z3.Length(u) == 0, u[0] != ONE), allin(u)]
    # lemmas L2/L3 instantiated
    lem = [val58(s) == val58(u), V == val58(s), z3.Implies(z3.Length(u) > 0, z3.And(chars58(V) == u, V > 0)),
           z3.Implies(z3.Length(u) == 0, V == 0), chars58(Z0) == z3.Empty(ISeq)]
    # decode contract
    n = z3.Length(body)
    dec = [body == z3.SubSeq(s, 0, z3.Length(s) - 1), r == z3.Concat(_rep(Z0, pad), M._minbe(V)), pad >= 0, pad <= n,
           z3.SubSeq(body, 0, pad) == _rep(O1, pad), z3.Or(pad == n, body[pad] != ONE), z3.Length(_rep(O1, pad)) == pad, z3.Length(_rep(Z0, pad)) == pad]
    # B-axioms about minbe / BE
    bax = [z3.Implies(V > 0, z3.And(M._minbe(V)[0] != 0, z3.Length(M._minbe(V)) >= 1, be(M._minbe(V)) == V)), M._minbe(Z0) == z3.Unit(Z0),
           be(r) == be(M._minbe(V)), be(z3.Unit(Z0)) == 0]
    # encode contract on r: '1'^lz ++ chars58(be(r)) with lz = leading zero bytes of r
    enc = [e2 == z3.Concat(_rep(O1, lz), chars58(be(r))), lz >= 0, lz <= z3.Length(r), z3.SubSeq(r, 0, lz) == _rep(Z0, lz),
           z3.Or(lz == z3.Length(r), r[lz] != 0), z3.Length(_rep(Z0, lz)) == lz, z3.Length(_rep(O1, lz)) == lz]
    elem = [z3.Implies(z3.And(pad >= 0, pad < p), _rep(O1, p)[pad] == ONE), z3.Implies(z3.And(p >= 0, p < pad), _rep(O1, pad)[p] == ONE),
            z3.Implies(z3.And(lz >= 0, lz < pad), _rep(Z0, pad)[lz] == 0), z3.Implies(z3.And(pad >= 0, pad < lz), _rep(Z0, lz)[pad] == 0)]
    # element-wise consequences of sequence theory, each discharged on its own first, then used as hints
    mb = M._minbe(V)
    hints = [z3.Implies(z3.And(lz >= 0, lz < pad), r[lz] == _rep(Z0, pad)[lz]),
             z3.Implies(z3.Length(mb) >= 1, r[pad] == mb[0]),
             z3.Implies(z3.And(pad >= 0, pad < lz, lz <= z3.Length(r)), z3.SubSeq(r, 0, lz)[pad] == r[pad]),
             z3.Length(r) == pad + z3.Length(mb)]
    basic = [r == z3.Concat(_rep(Z0, pad), mb), z3.Length(_rep(Z0, pad)) == pad, pad >= 0]
    for k, h in enumerate(hints):
        out.append(prove(f"C10.lemma.inverse.hint[{k}]", h, hyps=basic, timeout_ms=60000, statement="element-wise fact of concatenation / extraction used as a hint"))
    hints2 = [z3.Length(s) == p + z3.Length(u), z3.Length(body) == z3.Length(s) - 1,
              z3.Implies(z3.And(pad >= 0, pad < p, pad < z3.Length(body)), body[pad] == _rep(O1, p)[pad]),
              z3.Implies(z3.And(z3.Length(u) >= 2), body[p] == u[0]),
              z3.Implies(z3.And(p >= 0, p < pad, pad <= z3.Length(body)), z3.SubSeq(body, 0, pad)[p] == body[p])]
    basic2 = [s == z3.Concat(_rep(O1, p), u), z3.Length(_rep(O1, p)) == p, p >= 0, z3.Length(s) >= 1, body == z3.SubSeq(s, 0, z3.Length(s) - 1)]
    for k, h in enumerate(hints2):
        out.append(prove(f"C10.lemma.inverse.hint2[{k}]", h, hyps=basic2, timeout_ms=60000, statement="element-wise fact of concatenation / extraction used as a hint"))
    hyps = decomp + lem + dec + bax + enc + elem + hints + hints2
    out.append(prove("C10.lemma.inverse.pad_equals_ones.nonempty_rest", z3.Implies(z3.Length(u) > 0, pad == p), hyps=hyps, timeout_ms=60000,
                     statement="s has a character other than '1': the decoder's pad count equals the number of leading '1's"))
    out.append(prove("C10.lemma.inverse.lz_equals_pad.nonempty_rest", z3.Implies(z3.And(z3.Length(u) > 0, pad == p), lz == pad), hyps=hyps, timeout_ms=60000,
                     statement="... and the encoder's zero count on the decoded bytes equals that pad count (minbe(V) starts with a non-zero byte)"))
    out.append(prove("C10.lemma.inverse.nonempty_rest", z3.Implies(z3.And(z3.Length(u) > 0, pad == p, lz == pad), e2 == s), hyps=hyps, timeout_ms=60000,
                     statement="s has a character other than '1': encode(decode(s)) = s"))
    rep_succ = [z3.Implies(p >= 1, z3.And(_rep(O1, p) == z3.Concat(_rep(O1, p - 1), z3.Unit(O1)), _rep(Z0, p) == z3.Concat(_rep(Z0, p - 1), z3.Unit(Z0)),
                                           z3.Length(_rep(O1, p - 1)) == p - 1, z3.Length(_rep(Z0, p - 1)) == p - 1))]
    elemB = [z3.Implies(z3.And(pad >= 0, pad < p - 1), _rep(O1, p - 1)[pad] == ONE), z3.Implies(z3.And(lz >= 0, lz < p), _rep(Z0, p)[lz] == 0)]
    out.append(prove("C10.lemma.inverse.all_ones.pad", z3.Implies(z3.Length(u) == 0, pad == p - 1), hyps=hyps + rep_succ + elemB, timeout_ms=60000,
                     statement="s = '1'^p: the pad count over s[:-1] is p - 1"))
    out.append(prove("C10.lemma.inverse.all_ones.decoded", z3.Implies(z3.And(z3.Length(u) == 0, pad == p - 1), r == _rep(Z0, p)), hyps=hyps + rep_succ + elemB, timeout_ms=60000,
                     statement="s = '1'^p decodes to p zero bytes"))
    out.append(prove("C10.lemma.inverse.all_ones", z3.Implies(z3.And(z3.Length(u) == 0, r == _rep(Z0, p), lz == p, be(r) == 0), e2 == s), hyps=hyps + rep_succ + elemB,
                     timeout_ms=60000, statement="p zero bytes encode to '1'^p = s"))
    return out
