#!/usr/bin/env python3
"""Regenerates MANIFEST.json from props/REGISTRY (single source of truth for what is claimed)."""
import json, os, sys
HERE = os.path.dirname(os.path.abspath(__file__))
sys.path.insert(0, HERE)

def main():
    from props import REGISTRY  # {id: dict(...)} for delivered checks
    ids = [json.loads(l)["id"] for l in open(os.path.join(HERE, "properties.jsonl"))]
    checks, na = [], []
    for pid in ids:
        r = REGISTRY.get(pid)
        if r is None or not r.get("delivered"):
            na.append({"property_id": pid,
                       "reason": (r or {}).get("na_reason", "check not delivered yet (build in progress); not claimed")})
            continue
        checks.append({
            "property_id": pid,
            "quick_cmd": f"./vcheck {pid} --tier quick",
            "thorough_cmd": f"./vcheck {pid} --tier thorough",
            "evidence_file": f"evidence/{pid}.json",
            "replay_cmd_template": "./vcheck --replay {path}",
            "engine": "pyvc",
            "level_claimed": {"category": "proof", "text": r["level_text"], "design_ref": r.get("design_ref", "DESIGN.md §3 " + pid)},
            "level_note": r["level_note"],
            "technique": r["technique"],
        })
    m = {
        "version": 1,
        "setup_cmd": "./setup.sh",
        "hooks": {
            "guard": "BTC_HD_WALLET_VERIF",
            "enable": "none needed: contracts are sidecar files under /verif/contracts keyed by qualified function name; the VC generator re-reads /repo's working tree on every run. The guard variable is reserved and unused.",
            "baseline_off_cmd": "cd /repo && /venv/bin/python -m pytest -q -p no:cacheprovider --timeout=900",
            "source_commits": [],
            "add_only": True,
        },
        "engines": [
            {"name": "pyvc", "path": "pyvc/", "serves_properties": [c["property_id"] for c in checks],
             "kind_free_text": "verification-condition generator: symbolic execution of the real function ASTs (re-read from /repo on every run) against sidecar contracts; obligations discharged by z3 5.1 (cvc5 second opinion), finite domains by complete enumeration; bounded stand-ins labelled as such"},
        ],
        "checks": checks,
        "not_applicable": na,
        "notes": "See DESIGN.md. Exit codes: 0 held, 1 VIOLATION (replayed on the real code where a counterexample exists), 2 undecided, 3 checker error.",
    }
    json.dump(m, open(os.path.join(HERE, "MANIFEST.json"), "w"), indent=1)
    import jsonschema
    jsonschema.validate(m, json.load(open("/root/.vp/MANIFEST.schema.json")))
    print("MANIFEST.json:", len(checks), "checks,", len(na), "not_applicable")

if __name__ == "__main__":
    main()
