#!/bin/sh
# Builds the offline overlay interpreter /verif/.venv (Python 3.12 with z3-solver, cvc5, numpy,
# hypothesis, jsonschema + the repository's own dependencies via a .pth to /venv's site-packages).
set -e
cd "$(dirname "$0")"
ready() { [ -x .venv/bin/python ] && .venv/bin/python -c "import z3, numpy, jsonschema, ecdsa" 2>/dev/null; }
if ready; then
    exit 0
fi
# several checks may start at once on a fresh restore: build under a lock, re-test after acquiring it
if command -v flock >/dev/null 2>&1; then
    exec 9>.setup.lock
    flock 9
    if ready; then
        exit 0
    fi
fi
rm -rf .venv
/venv/bin/python -m venv .venv
PIP_NO_INDEX=1 .venv/bin/pip install -q --no-index --find-links /opt/veriftools/wheels \
    z3-solver numpy cvc5 hypothesis jsonschema >/dev/null
SP=$(.venv/bin/python -c "import sysconfig; print(sysconfig.get_paths()['purelib'])")
echo "import site; site.addsitedir('/venv/lib/python3.12/site-packages')" > "$SP/_venv_overlay.pth"
.venv/bin/python -c "import z3, numpy, jsonschema, ecdsa; print('overlay venv ok, z3', z3.get_version_string())"
