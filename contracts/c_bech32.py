"""Sidecar contracts for btc_hd_wallet/bech32.py (C11)."""
from . import summaries as _SUM_ALWAYS      # noqa: F401
import z3
from pyvc import logic as L
from pyvc import engine as E
from pyvc import seqs as Q
from pyvc.seqs import ZSeq, ISeq
from pyvc.lowbits import LB, bv, W, MASK
from pyvc.logic import (Rope, as_rope, is_sym, land, lor, lnot, implies, iff, eq, sink)
from pyvc.engine import Ref, HList, Undecided, PyRaise, SUMMARIES
from pyvc.verify import NS
from spec import bech32 as S

CONTRACTS = []
CANARIES = []


def contract(cls):
    CONTRACTS.append(cls())
    return cls


def canary(cls):
    CANARIES.append(cls())
    return cls


def _chunks(vals, k):
    return [vals[i:i + k] for i in range(0, len(vals), k)]


def B(x):
    return z3.BitVecVal(x, W)


def spec_step_bv(chk, v):
    """c(x)*x + v mod g(x) over GF(32), on the packed representation: by linearity of GF(32) multiplication the
    reduction term of the top coefficient t is XOR_i t_i * GEN[i] with GEN computed from g(x) in spec/bech32.py"""
    top = z3.LShR(chk, 25)
    r = ((chk & B(0x1ffffff)) << 5) ^ v
    for i in range(5):
        r = r ^ z3.If(z3.Extract(i, i, top) == 1, B(S.GEN[i]), B(0))
    return r


POLY = z3.Function("BECH32_POLYMOD", ISeq, z3.BitVecSort(W))        # polymod as a function of the value sequence


def poly_unfold(seq, i):
    """POLY(seq[:i+1]) = step(POLY(seq[:i]), seq[i]);  POLY([]) = 1"""
    pre, nxt = z3.SubSeq(seq, 0, i), z3.SubSeq(seq, 0, i + 1)
    return z3.And(nxt == z3.Concat(pre, z3.SubSeq(seq, i, 1)), z3.SubSeq(seq, i, 1) == z3.Unit(seq[i]),
                  POLY(nxt) == spec_step_bv(POLY(pre), z3.Int2BV(seq[i], W)),
                  POLY(z3.Empty(ISeq)) == B(1), z3.SubSeq(seq, 0, 0) == z3.Empty(ISeq))


class PolyLoop:
    """`for value in values: top = chk >> 25; chk = (chk & 0x1ffffff) << 5 ^ value; (5 generator xors)`
    invariant: chk == POLY(values[:i]) and chk < 2^30; every iteration is one spec step"""
    name = "bech32_polymod.loop0"

    def at_entry(self, ctx, frame, it):
        z = it if isinstance(it, ZSeq) else None
        if z is None:
            raise Undecided("polymod loop over a non-sequence")
        g = NS(seq=z.t, i=z3.IntVal(0))
        ctx.ghost = getattr(ctx, "ghost", {})
        ctx.ghost[self.name] = g
        sink().add(poly_unfold(g.seq, z3.IntVal(0)))
        return g

    def invariant(self, ctx, frame, g):
        c = frame.env["chk"]
        return land(g.i >= 0, g.i <= z3.Length(g.seq), bv(c) == POLY(z3.SubSeq(g.seq, 0, g.i)), z3.ULT(bv(c), B(1 << 30)))

    def havoc(self, ctx, frame, g):
        k = ctx.loop_counter
        g.i = z3.Int(f"i!poly!{k}")
        frame.env["chk"] = LB.fresh(f"chk!{k}", exact=True, bits=30)
        g.old = frame.env["chk"]
        for v in ("top", "value", "i"):
            frame.env.pop(v, None)
        sink().add(poly_unfold(g.seq, g.i))

    def for_cond(self, ctx, frame, g):
        return g.i < z3.Length(g.seq)

    def for_element(self, ctx, frame, g):
        v = g.seq[g.i]
        g.value = v
        return LB(z3.Int2BV(v, W), True, 5)

    def for_advance(self, ctx, frame, g):
        g.i = g.i + 1

    def after_body(self, ctx, frame, g):
        ctx.side_check("bech32_polymod.step_is_multiplication_by_x_mod_g", bv(frame.env["chk"]) == spec_step_bv(g.old.v, z3.Int2BV(g.value, W)))

    def at_exit(self, ctx, frame, g):
        pass


@contract
class Polymod:
    """C11: bech32_polymod(values) is the BIP173 checksum polynomial remainder (fold of the GF(32) step) for
    value sequences of ANY length over 0..31, and stays below 2^30"""
    target = "btc_hd_wallet.bech32.bech32_polymod"
    props = ("C11",)
    loops = {0: PolyLoop()}
    opts = dict(merge_ifexp=True)

    def inputs(self, Bd):
        if Bd.concrete:
            n = Bd.int("n", 0, 100)
            vals = [Bd.int(f"v{i}", 0, 32) for i in range(n)]
            return [vals], {}, NS(vals=vals)
        vals = ZSeq.sym("values", "bytes")
        j = z3.Int("jq")
        # every element is a 5-bit value
        sink().add(z3.ForAll([j], z3.Implies(z3.And(j >= 0, j < z3.Length(vals.t)), z3.And(vals.t[j] >= 0, vals.t[j] < 32))))
        return [vals], {}, NS(vals=vals)

    def post(self, c, I, out):
        yield "ensures.returns", out.returned
        if out.returned:
            if isinstance(I.vals, list):
                yield "ensures.spec_value", out.value == S.polymod(I.vals)
                return
            r = out.value
            ok = isinstance(r, LB) and r.exact
            yield "ensures.is_30_bit_value", ok
            if ok:
                yield "ensures.fold_of_spec_step", r.v == POLY(I.vals.t)
                yield "ensures.below_2_30", z3.ULT(r.v, B(1 << 30))


# ------------------------------------------------------------------------------------------ callers see POLY
def seq_of(ctx, values):
    """a python-level list of 5-bit values (LB / ints) -> z3 sequence of integers"""
    items = E.iterate(ctx, values)
    parts = []
    for x in items:
        x = L.simplify_native(x)
        if isinstance(x, LB):
            parts.append(z3.Unit(x.as_int()))
        elif isinstance(x, int) or (is_sym(x) and z3.is_int(x)):
            parts.append(z3.Unit(L.toint(x)))
        else:
            raise Undecided("polymod summary: non-integer value")
    if not parts:
        return z3.Empty(ISeq)
    return parts[0] if len(parts) == 1 else z3.Concat(*parts)


def s_polymod(ctx, args, kw):
    """callers (with value lists of concrete length) see the contract of bech32_polymod: the fold of the spec
    step over the list, i.e. its complete unfolding, a value below 2^30"""
    vals = args[0] if args else kw["values"]
    items = [as_bv(L.simplify_native(x)) for x in E.iterate(ctx, vals)]
    t = poly_of_list(items)
    if len(items) > 8 and is_sym(t):
        # name long folds (keeps later terms small); the definition is a fact
        nm = z3.BitVec(f"polymod!{sink().counter}", W)
        sink().counter += 1
        sink().add(nm == t)
        t = nm
    sink().add(z3.ULT(t, B(1 << 30)))
    return LB(t, True, 30)


def poly_of_list(vals):
    """spec: POLY unfolded completely over a concrete-length list of bit-vector values"""
    c = B(1)
    for v in vals:
        c = spec_step_bv(c, v)
    return c


def unfold_all(ctx_or_none, items):
    """facts: POLY(seq of items) == complete unfolding (definitional instances for a concrete-length list)"""
    ints = [z3.BV2Int(x) if z3.is_bv(x) else L.toint(x) for x in items]
    units = [z3.Unit(i) for i in ints]
    facts = [POLY(z3.Empty(ISeq)) == B(1)]
    c = B(1)
    for k in range(len(items)):
        pre = z3.Empty(ISeq) if k == 0 else (units[0] if k == 1 else z3.Concat(*units[:k]))
        nxt = units[0] if k == 0 else z3.Concat(*units[:k + 1])
        v = items[k] if z3.is_bv(items[k]) else z3.Int2BV(ints[k], W)
        facts.append(POLY(nxt) == spec_step_bv(POLY(pre), v))
    return facts


class _WithPolymod:
    def run(self, ctx, f, args, kwargs, I):
        saved = dict(SUMMARIES)
        try:
            SUMMARIES["btc_hd_wallet.bech32.bech32_polymod"] = s_polymod
            return ctx.call_value(f, args, kwargs)
        finally:
            SUMMARIES.clear()
            SUMMARIES.update(saved)


def sym_values(Bd, n, tag="d", bits=5):
    out = []
    for i in range(n):
        if Bd.concrete:
            out.append(Bd.int(f"{tag}{i}", 0, 1 << bits))
        else:
            out.append(LB.fresh(f"{tag}{i}", exact=True, bits=bits))
    return out


def as_bv(x):
    return bv(x) if not isinstance(x, int) else B(x)


HRPS = ["bc", "tb", "bcrt", "a", "test1x"]


@contract
class VerifyChecksum(_WithPolymod):
    """C11: Encoding.BECH32 iff polymod(hrp_expand ++ data) == 1, BECH32M iff == 0x2bc830a3, None otherwise"""
    target = "btc_hd_wallet.bech32.bech32_verify_checksum"
    props = ("C11",)

    def inputs(self, Bd):
        hrp = HRPS[Bd.case("hrp", len(HRPS))]
        n = [0, 6, 7, 39][Bd.case("ndata", 4)]
        data = sym_values(Bd, n)
        return [hrp, Bd.list(data)], {}, NS(hrp=hrp, data=data)

    def post(self, c, I, out):
        import btc_hd_wallet.bech32 as R
        yield "ensures.returns", out.returned
        if out.returned:
            allv = [B(x) for x in S.hrp_expand(I.hrp)] + [as_bv(x) for x in I.data]
            pm = poly_of_list(allv)
            yield "ensures.bech32_iff_1", iff(out.value is R.Encoding.BECH32, pm == B(1))
            yield "ensures.bech32m_iff_const", iff(out.value is R.Encoding.BECH32M, pm == B(S.BECH32M_CONST))
            yield "ensures.none_otherwise", iff(out.value is None, z3.And(pm != B(1), pm != B(S.BECH32M_CONST)))


@contract
class CreateChecksum(_WithPolymod):
    """C11: the six checksum symbols are the 5-bit groups of polymod(hrp_expand ++ data ++ 0^6) xor const,
    const = 1 for BECH32 and 0x2bc830a3 for BECH32M"""
    target = "btc_hd_wallet.bech32.bech32_create_checksum"
    props = ("C11",)

    def inputs(self, Bd):
        import btc_hd_wallet.bech32 as R
        hrp = HRPS[Bd.case("hrp", len(HRPS))]
        n = [0, 1, 33, 53][Bd.case("ndata", 4)]
        data = sym_values(Bd, n)
        spec = [R.Encoding.BECH32, R.Encoding.BECH32M][Bd.case("spec", 2)]
        return [hrp, Bd.list(data), spec], {}, NS(hrp=hrp, data=data, spec=spec)

    def post(self, c, I, out):
        import btc_hd_wallet.bech32 as R
        yield "ensures.returns", out.returned
        if not out.returned:
            return
        const = S.BECH32M_CONST if I.spec is R.Encoding.BECH32M else 1
        res = E.iterate(c, out.value)
        yield "ensures.six_symbols", len(res) == 6
        allv = [B(x) for x in S.hrp_expand(I.hrp)] + [as_bv(x) for x in I.data] + [B(0)] * 6
        pm = poly_of_list(allv) ^ B(const)
        for i in range(6):
            yield f"ensures.symbol[{i}]", as_bv(res[i]) == (z3.LShR(pm, 5 * (5 - i)) & B(31))


# ------------------------------------------------------------------------------------------ convertbits
def spec_regroup_bv(vals, frombits, tobits, pad):
    """spec regrouping on bit-vectors: concatenate the frombits-wide values into one bit string, cut it into
    tobits-wide groups; -> (groups, leftover width, leftover value as a tobits-wide padded group)"""
    total = len(vals) * frombits
    if total == 0:
        return [], 0, None
    big = z3.Concat(*[z3.Extract(frombits - 1, 0, v) for v in vals]) if len(vals) > 1 else z3.Extract(frombits - 1, 0, vals[0])
    groups = []
    pos = total
    while pos >= tobits:
        groups.append(z3.ZeroExt(W - tobits, z3.Extract(pos - 1, pos - tobits, big)))
        pos -= tobits
    left = None
    if pos:
        rest = z3.Extract(pos - 1, 0, big)
        left = z3.ZeroExt(W - tobits, z3.Concat(rest, z3.BitVecVal(0, tobits - pos)))
    return groups, pos, left


class _Convertbits:
    """C11: convertbits regroups bits exactly; without padding it refuses leftover of >= frombits bits or
    non-zero leftover bits; values outside 0..2^frombits-1 are refused"""
    target = "btc_hd_wallet.bech32.convertbits"
    props = ("C11",)
    frombits, tobits, pad = 8, 5, True
    lengths = ()

    def inputs(self, Bd):
        n = self.lengths[Bd.case("length", len(self.lengths))]
        vals = sym_values(Bd, n, bits=self.frombits)
        return [Bd.list(vals), self.frombits, self.tobits, self.pad], {}, NS(vals=vals, n=n)

    def post(self, c, I, out):
        yield "ensures.returns", out.returned
        if not out.returned:
            return
        if I.vals and isinstance(I.vals[0], int) or not I.vals:
            want = S.regroup([int(v) for v in I.vals], self.frombits, self.tobits, self.pad)
            got = None if out.value is None else [int(x) if isinstance(x, int) else x for x in E.iterate(c, out.value)]
            yield "ensures.spec_value", got == want
            return
        groups, left_w, left = spec_regroup_bv([as_bv(v) for v in I.vals], self.frombits, self.tobits, self.pad)
        if self.pad:
            want = groups + ([left] if left_w else [])
            yield "ensures.never_none_with_padding", out.value is not None
            if out.value is not None:
                res = E.iterate(c, out.value)
                yield "ensures.group_count", len(res) == len(want)
                for i, (a, b) in enumerate(zip(res, want)):
                    yield f"ensures.group[{i}]", as_bv(a) == b
        else:
            bad = True if left_w >= self.frombits else (left != B(0) if left_w else False)
            yield "ensures.none_iff_leftover_too_long_or_nonzero", iff(out.value is None, bad)
            if out.value is not None:
                res = E.iterate(c, out.value)
                yield "ensures.group_count", len(res) == len(groups)
                for i, (a, b) in enumerate(zip(res, groups)):
                    yield f"ensures.group[{i}]", as_bv(a) == b


for _i, _ch in enumerate(_chunks(list(range(0, 43)), 11)):
    CONTRACTS.append(type(f"Convertbits_8to5_{_i}", (_Convertbits,), dict(frombits=8, tobits=5, pad=True, lengths=_ch, opts=dict(merge_ifexp=True)))())
for _i, _ch in enumerate(_chunks(list(range(0, 70)), 10)):
    CONTRACTS.append(type(f"Convertbits_5to8_{_i}", (_Convertbits,), dict(frombits=5, tobits=8, pad=False, lengths=_ch, opts=dict(merge_ifexp=True)))())


@contract
class ConvertbitsRange:
    """C11: a value outside 0..2^frombits-1 anywhere in the input makes convertbits return None"""
    target = "btc_hd_wallet.bech32.convertbits"
    props = ("C11",)

    def inputs(self, Bd):
        fb, tb, pad = [(8, 5, True), (5, 8, False)][Bd.case("direction", 2)]
        n = 1 + Bd.case("length_minus_1", 4)
        k = Bd.case("bad_position", 4) % n
        vals = sym_values(Bd, n, bits=fb)
        badv = Bd.int("bad_value") if Bd.concrete else None
        if Bd.concrete:
            if 0 <= badv < (1 << fb):
                badv += 1 << fb
            vals[k] = badv
        else:
            vals[k] = LB.fresh("bad", exact=True, bits=32)
            Bd.assume(z3.UGE(vals[k].v, B(1 << fb)))
        return [Bd.list(vals), fb, tb, pad], {}, NS()

    def post(self, c, I, out):
        yield "ensures.none_for_out_of_range_value", out.returned and out.value is None


# ------------------------------------------------------------------------------------------ segwit decode rules
def _enc():
    import btc_hd_wallet.bech32 as R
    return R.Encoding


class _DecodeRules(_WithPolymod):
    """C11: decode(hrp, addr) returns (version, program) exactly when the Bech32 layer accepted the string with
    the SAME prefix, the 5->8 regrouping is strict (no over-long or non-zero padding), 2 <= len <= 40, version <= 16,
    version 0 has 20 or 32 bytes, and the checksum constant matches the version (1 for v0, 0x2bc830a3 for v1-16);
    (None, None) in every other case.  (bech32_decode by contract: its result is an arbitrary accepted triple.)"""
    target = "btc_hd_wallet.bech32.decode"
    props = ("C11",)
    ks = ()
    opts = dict(merge_ifexp=True)

    def run(self, ctx, f, args, kwargs, I):
        saved = dict(SUMMARIES)
        try:
            SUMMARIES["btc_hd_wallet.bech32.bech32_decode"] = lambda c, a, k: I.triple
            return ctx.call_value(f, args, kwargs)
        finally:
            SUMMARIES.clear()
            SUMMARIES.update(saved)

    def run_real(self, f, rargs, rkw, I):
        import btc_hd_wallet.bech32 as R
        saved = R.bech32_decode
        R.bech32_decode = lambda bech: I.real_triple
        try:
            return f(*rargs, **rkw)
        finally:
            R.bech32_decode = saved

    def inputs(self, Bd):
        Enc = _enc()
        shape = Bd.case("layer_result", 3)        # 0: rejected, 1: accepted with the same hrp, 2: accepted with another hrp
        if shape == 0:
            I = NS(shape=0, triple=(None, None, None), real_triple=(None, None, None))
            return ["bc", "whatever"], {}, I
        k = self.ks[Bd.case("ndata", len(self.ks))]
        data = sym_values(Bd, k)
        spec = [Enc.BECH32, Enc.BECH32M][Bd.case("spec", 2)]
        hrpgot = "bc" if shape == 1 else "tb"
        lst = Bd.list(list(data))
        I = NS(shape=shape, k=k, data=data, spec=spec, triple=(hrpgot, lst, spec), real_triple=(hrpgot, list(data), spec))
        return ["bc", "whatever"], {}, I

    def post(self, c, I, out):
        Enc = _enc()
        yield "ensures.returns", out.returned
        if not out.returned:
            return
        none = isinstance(out.value, tuple) and out.value == (None, None)
        if I.shape != 1 or I.k == 0:
            yield "ensures.none_when_layer_rejects_or_other_prefix_or_empty", none
            return
        vals = [as_bv(x) for x in I.data]
        groups, left_w, left = spec_regroup_bv(vals[1:], 5, 8, False)
        nbytes = len(groups)
        strict = True if left_w == 0 else (False if left_w >= 5 else left == B(0))
        v = vals[0]
        ok = land(strict, 2 <= nbytes <= 40, z3.ULE(v, B(16)), implies(v == B(0), nbytes in (20, 32)),
                  (v == B(0)) if I.spec is Enc.BECH32 else (v != B(0)))
        yield "ensures.none_iff_some_rule_fails", iff(none, lnot(ok))
        if not none:
            okt = isinstance(out.value, tuple) and len(out.value) == 2
            yield "ensures.pair", okt
            if okt:
                yield "ensures.version", as_bv(out.value[0]) == v
                res = E.iterate(c, out.value[1])
                yield "ensures.program_length", len(res) == nbytes
                for i, (a, b) in enumerate(zip(res, groups)):
                    yield f"ensures.program_byte[{i}]", as_bv(a) == b


for _i, _ch in enumerate(_chunks(list(range(0, 72)), 6)):
    CONTRACTS.append(type(f"DecodeRules_{_i}", (_DecodeRules,), dict(ks=_ch))())


# ------------------------------------------------------------------------------------------ segwit encode
class EncToken(L.SymVal):
    """the string returned by bech32_encode(hrp, data, spec), by contract (opaque here)"""
    def __init__(self, hrp, data, spec):
        self.hrp, self.data, self.spec = hrp, data, spec

    def sym_eq(self, other):
        return other is self

    def sym_type(self):
        return str


class _EncodeRules(_WithPolymod):
    """C11: encode(hrp, v, prog) = bech32_encode(hrp, [v] ++ regroup_8to5(prog), BECH32 if v == 0 else BECH32M) for
    every legal (version, length) and None for every illegal one (version > 16, length outside 2..40, v0 with a
    length other than 20/32).  Callees by contract: convertbits (8->5 regrouping), bech32_encode (opaque string whose
    Bech32-layer decoding gives back (hrp, data, spec) - the round-trip lemma), decode (inlined)."""
    target = "btc_hd_wallet.bech32.encode"
    props = ("C11",)
    lengths = ()
    opts = dict(merge_ifexp=True)

    def run(self, ctx, f, args, kwargs, I):
        saved = dict(SUMMARIES)

        def s_bech32_encode(c, a, k):
            tok = EncToken(a[0], a[1], a[2])
            I.tokens.append(tok)
            return tok

        def s_bech32_decode(c, a, k):
            tok = a[0]
            if not isinstance(tok, EncToken):
                raise Undecided("bech32_decode of something that is not the encoder's output")
            n_total = len(tok.hrp) + 1 + len(E.iterate(c, tok.data)) + 6
            if n_total > 90:
                return (None, None, None)
            return (tok.hrp, c.new_list(list(E.iterate(c, tok.data))), tok.spec)

        def s_convertbits(c, a, k):
            data, fb, tb = a[0], a[1], a[2]
            pad = a[3] if len(a) > 3 else k.get("pad", True)
            if (fb, tb, pad) == (8, 5, True):
                vals = [as_bv_byte(x) for x in E.iterate(c, data)]
                groups, lw, left = spec_regroup_bv(vals, 8, 5, True)
                return c.new_list([LB(g, True, 5) for g in groups + ([left] if lw else [])])
            saved2 = SUMMARIES.pop("btc_hd_wallet.bech32.convertbits")
            try:
                import btc_hd_wallet.bech32 as R
                return c.call_value(R.convertbits, a, k)
            finally:
                SUMMARIES["btc_hd_wallet.bech32.convertbits"] = saved2
        try:
            SUMMARIES["btc_hd_wallet.bech32.bech32_polymod"] = s_polymod
            SUMMARIES["btc_hd_wallet.bech32.bech32_encode"] = s_bech32_encode
            SUMMARIES["btc_hd_wallet.bech32.bech32_decode"] = s_bech32_decode
            SUMMARIES["btc_hd_wallet.bech32.convertbits"] = s_convertbits
            SUMMARIES.pop("btc_hd_wallet.bech32.encode", None)
            return ctx.call_value(f, args, kwargs)
        finally:
            SUMMARIES.clear()
            SUMMARIES.update(saved)

    def inputs(self, Bd):
        n = self.lengths[Bd.case("length", len(self.lengths))]
        hrp = ["bc", "tb"][Bd.case("hrp", 2)]
        if Bd.concrete:
            v = Bd.int("witver", 0, 20)
            prog = bytes(Bd.int(f"p{i}", 0, 256) for i in range(n))
            return [hrp, v, prog], {}, NS(hrp=hrp, v=v, prog=prog, n=n, tokens=[])
        v = LB.fresh("witver", exact=True, bits=6)
        prog = Bd.bytes("prog", n)
        return [hrp, v, prog], {}, NS(hrp=hrp, v=v, prog=prog, n=n, tokens=[])

    def post(self, c, I, out):
        Enc = _enc()
        yield "ensures.returns", out.returned
        if not out.returned:
            return
        if isinstance(I.v, int):
            yield "ensures.spec_value", out.value == S.encode(I.hrp, I.v, I.prog)
            return
        v = I.v.v
        legal = land(z3.ULE(v, B(16)), 2 <= I.n <= 40, implies(v == B(0), I.n in (20, 32)))
        yield "ensures.none_iff_illegal_version_or_length", iff(out.value is None, lnot(legal))
        if out.value is not None:
            tok = out.value
            ok = isinstance(tok, EncToken) and tok in I.tokens
            yield "ensures.is_bech32_encoding", ok
            if ok:
                yield "ensures.hrp", tok.hrp == I.hrp
                yield "ensures.constant_for_version", iff(v == B(0), tok.spec is Enc.BECH32) if tok.spec in (Enc.BECH32, Enc.BECH32M) else False
                data = E.iterate(c, tok.data)
                vals = [as_bv_byte(x) for x in as_rope(I.prog).bytes_list()] if I.n else []
                groups, lw, left = spec_regroup_bv(vals, 8, 5, True)
                want = [v] + groups + ([left] if lw else [])
                yield "ensures.data_length", len(data) == len(want)
                for i, (a, b) in enumerate(zip(data, want)):
                    yield f"ensures.data[{i}]", as_bv(a) == b


def as_bv_byte(x):
    x = L.simplify_native(x)
    if isinstance(x, int):
        return B(x)
    if isinstance(x, LB):
        return x.v
    return z3.Int2BV(x, W)


for _i, _ch in enumerate(_chunks(list(range(0, 43)), 8)):
    CONTRACTS.append(type(f"EncodeRules_{_i}", (_EncodeRules,), dict(lengths=_ch))())


# ------------------------------------------------------------------------------------------ Bech32 layer on strings
from pyvc.seqs import CStr, ZChar, Table      # noqa: E402


def spec_bech32_decode_formula(codes, n):
    """BIP173 rules over the character codes (32-bit vectors) of a string of concrete length n"""
    inrange = land(*[z3.And(z3.UGE(cc, 33), z3.ULE(cc, 126)) for cc in codes]) if n else True
    has_upper = lor(*[z3.And(z3.UGE(cc, 65), z3.ULE(cc, 90)) for cc in codes]) if n else False
    has_lower = lor(*[z3.And(z3.UGE(cc, 97), z3.ULE(cc, 122)) for cc in codes]) if n else False
    mixed = land(has_upper, has_lower)
    low = [z3.If(z3.And(z3.UGE(cc, 65), z3.ULE(cc, 90)), cc + 32, cc) for cc in codes]
    seps = []
    for p in range(n):
        is_last = land(low[p] == 49, *[low[q] != 49 for q in range(p + 1, n)])
        seps.append((p, is_last))
    return inrange, mixed, low, seps


def cs_in(x):
    return z3.Or(*[x == ord(ch) for ch in S.CHARSET])


def cs_idx(x):
    r = B(0)
    for i, ch in enumerate(S.CHARSET):
        r = z3.If(x == ord(ch), B(i), r)
    return r


class _Bech32DecodeStr(_WithPolymod):
    """C11: bech32_decode(s) on strings of a given length with arbitrary characters: rejects characters outside
    33..126, mixed case, a missing/misplaced separator (pos < 1 or fewer than 6 checksum characters), more than 90
    characters, data characters outside the charset and a polymod that is neither constant; otherwise returns the
    lower-cased prefix, the data values without the 6 checksum symbols, and the encoding of the constant found"""
    target = "btc_hd_wallet.bech32.bech32_decode"
    props = ("C11",)
    n = 0
    opts = dict(merge_ifexp=True)
    max_paths = 3000
    timeout_ms = 30000

    def inputs(self, Bd):
        n = self.n
        if Bd.concrete:
            codes = [Bd.int(f"c{i}", 0, 256) for i in range(n)]
            return ["".join(chr(c) for c in codes)], {}, NS(codes=codes)
        codes = [LB.fresh(f"c{i}", exact=True, bits=21) for i in range(n)]
        return [CStr(codes)], {}, NS(codes=codes)

    def post(self, c, I, out):
        Enc = _enc()
        n = self.n
        yield "ensures.returns", out.returned
        if not out.returned:
            return
        rejected = isinstance(out.value, tuple) and out.value == (None, None, None)
        if (I.codes and isinstance(I.codes[0], int)) or (not I.codes and isinstance(out.value, tuple) and c.__dict__.get("_concrete")):
            want = S.bech32_decode("".join(chr(x) for x in I.codes))
            if want is None:
                yield "ensures.rejected", rejected
            else:
                got = out.value
                yield "ensures.accepted_value", (not rejected) and got[0] == want[0] and list(got[1]) == want[1] and \
                    ((got[2] is Enc.BECH32) == (want[2] == 1))
            return
        codes = [x.v for x in I.codes]
        inrange, mixed, low, seps = spec_bech32_decode_formula(codes, n)

        def pm_for(p):
            hrpv = [z3.LShR(x, 5) for x in low[:p]] + [B(0)] + [x & B(31) for x in low[:p]]
            return poly_of_list(hrpv + [cs_idx(x) for x in low[p + 1:]])
        if rejected:
            conds = [lnot(inrange), mixed, n > 90]
            conds.append(land(*[low[q] != 49 for q in range(n)]) if n else True)
            for p, is_last in seps:
                if p < 1 or p + 7 > n:
                    conds.append(is_last)
                    continue
                charset_ok = land(*[cs_in(x) for x in low[p + 1:]])
                pm = pm_for(p)
                conds.append(land(is_last, lor(lnot(charset_ok), land(pm != B(1), pm != B(S.BECH32M_CONST)))))
            yield "ensures.rejected_only_if_a_rule_fails", lor(*conds)
            return
        ok = isinstance(out.value, tuple) and len(out.value) == 3
        yield "ensures.triple", ok
        if not ok:
            return
        hrp, data, spec = out.value
        okh = isinstance(hrp, CStr)
        yield "ensures.hrp_is_prefix", okh
        if not okh:
            return
        p = len(hrp.codes)
        yield "ensures.accepted_only_if_all_rules_hold", land(
            inrange, lnot(mixed), n <= 90, p >= 1, p + 7 <= n, dict(seps)[p] if p < n else False,
            *[cs_in(x) for x in low[p + 1:]])
        yield "ensures.hrp_lowercased", land(*[as_bv(a) == b for a, b in zip(hrp.codes, low[:p])])
        dvals = E.iterate(c, data)
        yield "ensures.data_without_checksum", len(dvals) == n - p - 1 - 6 and land(*[as_bv(a) == cs_idx(x) for a, x in zip(dvals, low[p + 1:])])
        pm = pm_for(p)
        yield "ensures.constant_found", land(iff(spec is Enc.BECH32, pm == B(1)), iff(spec is Enc.BECH32M, pm == B(S.BECH32M_CONST)),
                                             spec in (Enc.BECH32, Enc.BECH32M))


for _n in list(range(0, 13)) + [14, 20]:
    CONTRACTS.append(type(f"Bech32DecodeStr_{_n}", (_Bech32DecodeStr,), dict(n=_n, tier="quick" if _n <= 11 else "thorough"))())


class _LayerRoundTrip(_WithPolymod):
    """C11 (round-trip lemma used by encode): bech32_decode(bech32_encode(hrp, data, spec)) = (hrp, data, spec)
    for lower-case prefixes without '1', every data length that fits 90 characters, symbolic 5-bit data, both
    constants; longer strings are rejected"""
    target = "btc_hd_wallet.bech32.bech32_encode"
    props = ("C11",)
    ks = ()
    opts = dict(merge_ifexp=True)
    max_paths = 3000
    timeout_ms = 60000

    def run(self, ctx, f, args, kwargs, I):
        import btc_hd_wallet.bech32 as R
        saved = dict(SUMMARIES)
        try:
            SUMMARIES["btc_hd_wallet.bech32.bech32_polymod"] = s_polymod
            s = ctx.call_value(f, args, kwargs)
            I.encoded = s
            return ctx.call_value(R.bech32_decode, [s], {})
        finally:
            SUMMARIES.clear()
            SUMMARIES.update(saved)

    def run_real(self, f, rargs, rkw, I):
        import btc_hd_wallet.bech32 as R
        s = f(*rargs, **rkw)
        I.encoded = s
        return R.bech32_decode(s)

    def inputs(self, Bd):
        Enc = _enc()
        hrp = ["bc", "tb"][Bd.case("hrp", 2)]
        k = self.ks[Bd.case("ndata", len(self.ks))]
        data = sym_values(Bd, k)
        spec = [Enc.BECH32, Enc.BECH32M][Bd.case("spec", 2)]
        hv = CStr.of(hrp) if not Bd.concrete else hrp
        return [hv, Bd.list(list(data)), spec], {}, NS(hrp=hrp, k=k, data=data, spec=spec)

    def post(self, c, I, out):
        yield "ensures.returns", out.returned
        if not out.returned:
            return
        total = len(I.hrp) + 1 + I.k + 6
        rejected = isinstance(out.value, tuple) and out.value == (None, None, None)
        if not (I.data and isinstance(I.data[0], int)):
            # the checksum lemma (lemmas/l_c11.py, proved for EVERY prefix state) instantiated at this prefix
            from lemmas.l_c11 import checksum_instance
            Enc = _enc()
            s_prefix = poly_of_list([B(x) for x in S.hrp_expand(I.hrp)] + [as_bv(x) for x in I.data])
            sink().add(checksum_instance(s_prefix, S.BECH32M_CONST if I.spec is Enc.BECH32M else 1))
        yield "ensures.accepted_iff_at_most_90_characters", rejected == (total > 90)
        if not rejected:
            hrp, data, spec = out.value
            hn = hrp.native() if isinstance(hrp, CStr) else hrp
            yield "ensures.same_hrp", hn == I.hrp
            yield "ensures.same_constant", spec is I.spec
            dv = E.iterate(c, data)
            yield "ensures.same_data", len(dv) == I.k and land(*[as_bv(a) == as_bv(b) if not (is_sym(a) and z3.is_int(a)) else z3.Int2BV(a, W) == as_bv(b)
                                                                for a, b in zip(dv, I.data)])


for _i, _ch in enumerate(_chunks([0, 1, 2, 3, 5, 8, 13, 21, 33, 34, 53, 54, 65, 66, 80, 81, 82, 83, 90], 2)):
    CONTRACTS.append(type(f"LayerRoundTrip_{_i}", (_LayerRoundTrip,), dict(ks=_ch))())


class CanaryPolymodGenerator(Polymod):
    """must FAIL: spec step with one generator bit flipped"""
    props = ("C11",)

    def post(self, c, I, out):
        return ()


class _CanaryLoop(PolyLoop):
    def after_body(self, ctx, frame, g):
        top = z3.LShR(g.old.v, 25)
        r = ((g.old.v & B(0x1ffffff)) << 5) ^ z3.Int2BV(g.value, W)
        gens = list(S.GEN)
        gens[4] ^= 1
        for i in range(5):
            r = r ^ z3.If(z3.Extract(i, i, top) == 1, B(gens[i]), B(0))
        ctx.side_check("canary.step_with_flipped_generator_bit", bv(frame.env["chk"]) == r)


CanaryPolymodGenerator.loops = {0: _CanaryLoop()}
CANARIES += [CanaryPolymodGenerator()]
