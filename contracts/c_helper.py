"""Sidecar contracts for the hash / address helpers of helper.py (C05, C16, C11 wiring)."""
from . import summaries as _SUM_ALWAYS      # noqa: F401,E402  (summaries installed independent of import order)
import z3
from pyvc import prims as U
from pyvc.logic import (Rope, as_rope, is_sym, land, lor, lnot, implies, iff, eq, ite, seg)
from pyvc.verify import NS
from . import summaries as SUM

CONTRACTS = []
CANARIES = []


def contract(cls):
    CONTRACTS.append(cls())
    return cls


def canary(cls):
    CANARIES.append(cls())
    return cls


def _hash_contract(fname, spec, doc):
    class H:
        target = f"btc_hd_wallet.helper.{fname}"
        props = ("C05", "C10") if fname == "hash256" else ("C05",)
        __doc__ = doc

        def inputs(self, B):
            n = [0, 1, 20, 32, 33, 55, 56, 64, 65][B.case("length", 9)]
            s = B.bytes("s", n)
            return [s], {}, NS(s=s)

        def post(self, c, I, out):
            yield "ensures.returns", out.returned
            if out.returned:
                yield "ensures.composition", eq(out.value, spec(I.s))
    H.__name__ = "Hash_" + fname
    return H


CONTRACTS.append(_hash_contract("hash160", lambda s: U.ripemd160(U.sha256(s)), "C05: HASH160(x) = RIPEMD160(SHA256(x)) (ripemd160 by contract)")())
CONTRACTS.append(_hash_contract("hash256", lambda s: U.sha256(U.sha256(s)), "hash256(x) = SHA256(SHA256(x))")())
CONTRACTS.append(_hash_contract("sha256", lambda s: U.sha256(s), "sha256(x) = one round of SHA-256")())


class _AddrHelper:
    fname = "h160_to_p2pkh_address"
    props = ("C05", "C16")

    @property
    def target(self):
        return f"btc_hd_wallet.helper.{self.fname}"

    def inputs(self, B):
        n = 32 if self.fname == "h256_to_p2wsh_address" else 20
        h = B.bytes("h", n)
        t = B.bool("testnet")
        dflt = B.case("testnet_defaulted", 2)
        name = "h256" if n == 32 else "h160"
        kw = {name: h} if dflt else {name: h, "testnet": t}
        return [], kw, NS(h=as_rope(h), t=False if dflt else t)

    def post(self, c, I, out):
        yield "ensures.returns", out.returned
        if out.returned:
            if self.fname == "h160_to_p2pkh_address":
                exp = SUM.b58chk(seg(ite(I.t, 0x6f, 0x00), 1) + I.h)
            elif self.fname == "h160_to_p2sh_address":
                exp = SUM.b58chk(seg(ite(I.t, 0xc4, 0x05), 1) + I.h)
            else:
                exp = SUM.segwit_addr(I.t, 0, I.h)
            yield "ensures.network_prefix_and_payload", eq(out.value, exp)


for _f in ("h160_to_p2pkh_address", "h160_to_p2sh_address", "h160_to_p2wpkh_address", "h256_to_p2wsh_address"):
    CONTRACTS.append(type("AddrHelper_" + _f, (_AddrHelper,), dict(fname=_f))())


@canary
class CanaryP2shTestnetPrefix(_AddrHelper):
    """must FAIL: claims c5 for testnet P2SH"""
    fname = "h160_to_p2sh_address"

    def post(self, c, I, out):
        if out.returned:
            yield "canary.prefix", eq(out.value, SUM.b58chk(seg(ite(I.t, 0xc5, 0x05), 1) + I.h))


@contract
class Bech32DecodeAddress:
    """C11: helper.bech32_decode_address(addr) hands the address UNCHANGED to bech32.decode with hrp = addr[:2] and
    returns the program bytes; whatever the segwit decoder rejects (mixed case, ...) is rejected here as well"""
    target = "btc_hd_wallet.helper.bech32_decode_address"
    props = ("C11",)

    def run(self, ctx, f, args, kwargs, I):
        from pyvc.engine import SUMMARIES
        saved = dict(SUMMARIES)

        def s_decode(c, a, k):
            kw = dict(zip(["hrp", "addr"], a))
            kw.update(k)
            I.calls.append(kw)
            if I.accept:
                return (I.ver, c.new_list(list(as_rope(I.prog).bytes_list())))
            return (None, None)
        try:
            SUMMARIES["btc_hd_wallet.bech32.decode"] = s_decode
            return ctx.call_value(f, args, kwargs)
        finally:
            SUMMARIES.clear()
            SUMMARIES.update(saved)

    def inputs(self, B):
        from pyvc.seqs import CStr
        from pyvc.lowbits import LB
        if B.concrete:
            from pyvc.engine import Undecided
            raise Undecided("wiring contract over a summarised decoder (concrete behaviour: C11 bounded differential)")
        n = 2 + B.case("extra_length", 3) * 20
        codes = [LB.fresh(f"c{i}", exact=True, bits=21) for i in range(n)]
        addr = CStr(codes)
        accept = bool(B.case("decoder_accepts", 2))
        prog = B.bytes("prog", 20)
        return [addr], {}, NS(addr=addr, accept=accept, prog=prog, ver=0, calls=[])

    def post(self, c, I, out):
        yield "ensures.decoder_called_once", len(I.calls) == 1
        if len(I.calls) == 1:
            kw = I.calls[0]
            a = kw.get("addr")
            yield "ensures.address_passed_unchanged", a is I.addr
            h = kw.get("hrp")
            from pyvc.seqs import CStr
            yield "ensures.hrp_is_first_two_characters", isinstance(h, CStr) and len(h.codes) == 2 and all(x is y for x, y in zip(h.codes, I.addr.codes[:2]))
        if I.accept:
            yield "ensures.returns_program", out.returned and eq(out.value, I.prog)
        else:
            yield "raises.when_decoder_rejects", out.raised
