"""Sidecar contracts for btc_hd_wallet/keys.py (C09, C05, C16)."""
from . import summaries as _SUM_ALWAYS      # noqa: F401,E402  (summaries installed independent of import order)
import z3
from pyvc import prims as U
from pyvc.logic import (Rope, as_rope, is_sym, land, lor, lnot, implies, iff, eq, to_be, ite, seg, SymVal)
from pyvc.engine import Ref, HObj, HList, ModelObj, SStr, OStr, Undecided
from pyvc.verify import NS
from .common import N, repo
from . import summaries as SUM

CONTRACTS = []
CANARIES = []


def contract(cls):
    CONTRACTS.append(cls())
    return cls


def canary(cls):
    CANARIES.append(cls())
    return cls


def sym_private_key(B, tag="self"):
    """a PrivateKey object as the constructor leaves it: k = 32 bytes, K = PublicKey(k*G)"""
    R = repo()
    k = B.int(f"{tag}_k", 1, N)
    vk = ModelObj("VerifyingKey", pt=U.ecmul(k))
    pub = B.obj(R.keys.PublicKey, K=vk)
    ref = B.obj(R.keys.PrivateKey, k=seg(k, 32), K=pub)
    return ref, k


def sym_public_key(B, tag="self"):
    R = repo()
    if B.concrete:
        kk = (int(B.vals.get(f"{tag}_pt") or 0) % (N - 1)) + 1 if not hasattr(B, "rng") else B.rng.randrange(1, N)
        pt = U.ecmul(kk)
    else:
        v = B.int(f"{tag}_pt")
        pt = U.SymPt(U.unsec_fn(33)(v))
        B.assume(pt.t != U.INF)
    return B.obj(R.keys.PublicKey, K=ModelObj("VerifyingKey", pt=pt)), pt


def pub_point(c, ref):
    return c.deref(ref).fields["K"].f["pt"]


class _PrivInit:
    """C09: PrivateKey(x) succeeds iff x is 32 bytes / an int with value in [1, n-1]; then
    k = ser256(v), K = v*G; everything else is rejected with an error"""
    target = "btc_hd_wallet.keys.PrivateKey.__init__"
    props = ("C09", "C01")
    opts = {}

    def run(self, ctx, f, args, kwargs, I):
        return ctx.call_value(repo().keys.PrivateKey, args, kwargs)

    def run_real(self, f, rargs, rkw, I):
        return repo().keys.PrivateKey(*rargs, **rkw)

    def post(self, c, I, out):
        v, ok = I.v, I.ok
        yield "raises.iff_out_of_range_or_wrong_length", iff(out.raised, lnot(ok))
        if out.returned:
            o = c.deref(out.value)
            yield "ensures.k_is_ser256", eq(o.fields.get("k"), seg(v, 32))
            K = o.fields.get("K")
            isk = isinstance(K, Ref) and c.deref(K).cls is repo().keys.PublicKey
            yield "ensures.K_is_PublicKey", isk
            if isk:
                yield "ensures.K_is_kG", pub_point(c, K).sym_eq(U.ecmul(v))


@contract
class PrivInitInt(_PrivInit):
    def inputs(self, B):
        v = B.int("sec_exp")
        return [v], {}, NS(v=v, ok=land(v >= 1, v < N))


@contract
class PrivInitBytes(_PrivInit):
    def inputs(self, B):
        L = B.case("length", 42)          # every length 0..41
        b = B.bytes("sec_exp", L)
        r = as_rope(b)
        v = r.be() if L else 0
        return [b], {}, NS(v=v, ok=land(L == 32, v >= 1, v < N))


@contract
class PrivFromInt:
    target = "btc_hd_wallet.keys.PrivateKey.from_int"
    props = ("C09",)

    def inputs(self, B):
        v = B.int("sec_exp")
        return [repo().keys.PrivateKey, v], {}, NS(v=v)

    def post(self, c, I, out):
        yield "raises.iff_out_of_range", iff(out.raised, lnot(land(I.v >= 1, I.v < N)))
        if out.returned:
            o = c.deref(out.value)
            yield "ensures.k_is_ser256", eq(o.fields.get("k"), seg(I.v, 32))


def spec_wif_payload(k, compressed, testnet):
    prefix = ite(testnet, 0xef, 0x80)
    body = seg(prefix, 1) + seg(k, 32)
    return body + Rope.of(b"\x01") if compressed else body


@contract
class Wif:
    """C09/C16: WIF = Base58Check((ef|80) || ser256(k) || (01 if compressed))"""
    target = "btc_hd_wallet.keys.PrivateKey.wif"
    props = ("C09", "C16", "C06")

    def inputs(self, B):
        ref, k = sym_private_key(B)
        comp = bool(B.case("compressed", 2))
        testnet = B.bool("testnet")
        return [ref], dict(compressed=comp, testnet=testnet), NS(k=k, comp=comp, testnet=testnet)

    def post(self, c, I, out):
        yield "ensures.returns", out.returned
        if out.returned:
            yield "ensures.payload", eq(out.value, SUM.b58chk(spec_wif_payload(I.k, I.comp, I.testnet)))


class FirstChar(SymVal):
    """first character of a Base58Check string of a 37/38-byte payload starting 80/ef
    (lemma C09.first_char: 38/80 -> K|L, 38/ef -> c, 37/80 -> 5, 37/ef -> 9)"""
    def __init__(self, n, first):
        self.n, self.first = n, first

    def classes(self):
        # -> dict char -> condition
        f = self.first
        if self.n == 34:      # 34-byte payload + 4 checksum bytes = 38 bytes
            return {"KL": eq(f, 0x80), "c": eq(f, 0xef)}
        if self.n == 33:      # 37 bytes
            return {"5": eq(f, 0x80), "9": eq(f, 0xef)}
        return {}


def first_char_hook(ctx, s, idx):
    if idx != 0 or not isinstance(s.parts[0], OStr):
        return None
    t = s.parts[0].t
    for n, f in SUM._B58CHK.items():
        if z3.is_app(t) and t.decl().eq(f) and n in (33, 34):
            first = Rope([(t.arg(0), n, False)])[0]
            # only payloads whose first byte is 80 or ef are covered by the lemma
            if not ctx.feasible(lnot(lor(eq(first, 0x80), eq(first, 0xef)))):
                return FirstChar(n, first)
    return None


def _fc_contains(ctx, container, x):
    return None


def _firstchar_in(self, ctx, container):
    cl = self.classes()
    conds = []
    for item in container:
        if item in ("K", "L"):
            if "KL" in cl and "K" in container and "L" in container:
                conds.append(cl["KL"])
            elif "KL" in cl:
                raise Undecided("first-character lemma only decides K and L together")
        elif item in cl:
            conds.append(cl[item])
    return lor(*conds) if conds else False


FirstChar.sym_in = _firstchar_in


@contract
class FromWif:
    """C09: from_wif(wif(k, compressed, testnet)).k == k for the four flavours"""
    target = "btc_hd_wallet.keys.PrivateKey.from_wif"
    props = ("C09",)
    opts = dict(str_index=first_char_hook)

    def inputs(self, B):
        k = B.int("k", 1, N)
        comp = bool(B.case("compressed", 2))
        testnet = B.bool("testnet")
        wif = SUM.b58chk(spec_wif_payload(k, comp, testnet))
        return [repo().keys.PrivateKey, wif], {}, NS(k=k, comp=comp, testnet=testnet)

    def post(self, c, I, out):
        yield "ensures.returns", out.returned
        if out.returned:
            o = c.deref(out.value)
            yield "ensures.roundtrip_k", eq(o.fields.get("k"), seg(I.k, 32))
            yield "ensures.roundtrip_K", pub_point(c, o.fields["K"]).sym_eq(U.ecmul(I.k))


@contract
class PubSec:
    """C09: sec() is the SEC1 compressed/uncompressed encoding of the point"""
    target = "btc_hd_wallet.keys.PublicKey.sec"
    props = ("C09", "C05")

    def inputs(self, B):
        ref, pt = sym_public_key(B)
        comp = bool(B.case("compressed", 2))
        dflt = B.case("use_default", 2)
        kw = {} if dflt else dict(compressed=comp)
        return [ref], kw, NS(pt=pt, comp=True if dflt else comp)

    def post(self, c, I, out):
        yield "ensures.returns", out.returned
        if out.returned:
            yield "ensures.sec1", eq(out.value, U.sec(I.pt, I.comp))


@contract
class PubParse:
    """C09: PublicKey.parse accepts exactly the on-curve SEC encodings (E4) and round-trips sec()"""
    target = "btc_hd_wallet.keys.PublicKey.parse"
    props = ("C09",)

    def inputs(self, B):
        L = B.case("length", 70)
        b = B.bytes("key_bytes", L)
        return [repo().keys.PublicKey, b], {}, NS(b=b, L=L)

    def post(self, c, I, out):
        ok, pt = U.sec_parse(I.b) if I.L else (False, None)
        yield "raises.iff_not_a_point_encoding", iff(out.raised, lnot(ok))
        if out.returned:
            o = c.deref(out.value)
            yield "ensures.class", o.cls is repo().keys.PublicKey
            yield "ensures.point", pub_point(c, out.value).sym_eq(pt)
            if I.L == 33:
                # parse(sec(K)) == K : re-encoding gives the same 33 bytes
                yield "ensures.sec_roundtrip", eq(U.sec(pub_point(c, out.value), True), I.b)


@contract
class PubEq:
    target = "btc_hd_wallet.keys.PublicKey.__eq__"
    props = ("C09",)

    def inputs(self, B):
        a, pa = sym_public_key(B, "a")
        b, pb = sym_public_key(B, "b")
        return [a, b], {}, NS(pa=pa, pb=pb)

    def post(self, c, I, out):
        yield "ensures.returns", out.returned
        if out.returned:
            yield "ensures.eq_iff_same_sec", iff(out.value, eq(U.sec(I.pa, True), U.sec(I.pb, True)))


@contract
class PubAddress:
    """C05/C16: P2PKH = Base58Check((6f|00) || HASH160(sec)), P2WPKH = segwit v0 address of HASH160(sec)"""
    target = "btc_hd_wallet.keys.PublicKey.address"
    props = ("C05", "C16")

    def inputs(self, B):
        ref, pt = sym_public_key(B)
        comp = bool(B.case("compressed", 2))
        testnet = B.bool("testnet")
        at = ["p2pkh", "p2wpkh", "p2sh", "P2PKH", ""][B.case("addr_type", 5)]
        return [ref], dict(compressed=comp, testnet=testnet, addr_type=at), NS(pt=pt, comp=comp, testnet=testnet, at=at)

    def post(self, c, I, out):
        h = U.hash160(U.sec(I.pt, I.comp))
        yield "raises.iff_unsupported_type", out.raised == (I.at not in ("p2pkh", "p2wpkh"))
        if out.returned and I.at == "p2pkh":
            yield "ensures.p2pkh", eq(out.value, SUM.b58chk(seg(ite(I.testnet, 0x6f, 0x00), 1) + h))
        if out.returned and I.at == "p2wpkh":
            yield "ensures.p2wpkh", eq(out.value, SUM.segwit_addr(I.testnet, 0, h))


@canary
class CanaryWifPrefix(Wif):
    """must FAIL: testnet prefix flipped to ee"""
    def post(self, c, I, out):
        if out.returned:
            body = seg(ite(I.testnet, 0xee, 0x80), 1) + seg(I.k, 32)
            body = body + Rope.of(b"\x01") if I.comp else body
            yield "canary.payload", eq(out.value, SUM.b58chk(body))


@canary
class CanaryPrivRange(_PrivInit):
    """must FAIL: accepts n"""
    def inputs(self, B):
        v = B.int("sec_exp")
        return [v], {}, NS(v=v, ok=land(v >= 1, v <= N))
