"""Sidecar contracts for btc_hd_wallet/bip39.py (C04 mnemonic encoding, C08 entropy source)."""
from . import summaries as _SUM_ALWAYS      # noqa: F401,E402  (summaries installed independent of import order)
import z3
from pyvc import prims as U
from pyvc import logic as L
from pyvc import engine as E
from pyvc.logic import (Rope, as_rope, is_sym, land, lor, lnot, implies, iff, eq, ite, seg, SymVal)
from pyvc.engine import Ref, HObj, HList, SStr, OStr, Undecided, PyRaise, mk_str, PStr, HexStr
from pyvc.verify import NS
from .common import repo

CONTRACTS = []
CANARIES = []


def contract(cls):
    CONTRACTS.append(cls())
    return cls


def canary(cls):
    CANARIES.append(cls())
    return cls


SIZES = {16: 12, 20: 15, 24: 18, 28: 21, 32: 24}        # entropy bytes -> words (BIP39 table)


class HexStrWS(HexStr):
    """hex text of a rope with `ws` extra ASCII-whitespace characters somewhere between byte pairs
    (bytes.fromhex skips them): len() is 2n + ws, fromhex gives the same bytes"""
    def __init__(self, rope, ws):
        super().__init__(rope)
        self.ws = ws

    def sym_len(self, ctx=None):
        return 2 * len(self.rope) + self.ws

    def sym_fromhex(self, ctx):
        return self.rope

    def materialize(self):
        h = self.rope.native().hex()
        k = int(self.ws)
        pairs = [h[i:i + 2] for i in range(0, len(h), 2)] or [""]
        return (" " * k).join([pairs[0], "".join(pairs[1:])]) if len(pairs) > 1 else h + " " * k


def word_fn():
    from btc_hd_wallet.bip39_wordlist import word_list
    n = len(word_list)
    return z3.Function(f"WORD_{n}_{__import__("zlib").crc32(repr(tuple(word_list)).encode())}", z3.IntSort(), PStr), n, len(set(word_list)) == n


def spec_sentence(ent_rope):
    """BIP39: ENT bits || first ENT/32 bits of SHA-256(ENT), cut into 11-bit indexes, words joined by ' '"""
    r = as_rope(ent_rope)
    n = len(r)
    if r.is_concrete():
        from spec import bip39 as SB
        return SB.mnemonic_from_entropy(r.native())
    cs = n // 4                       # checksum bits = ENT / 32
    chk = L.define("slice", L.fdiv(U.sha256(r).be(), 2 ** (256 - cs)))      # first ENT/32 bits of the hash
    v = L.define("bits", r.be() * (2 ** cs) + chk)
    w = (8 * n + cs) // 11
    f, nw, distinct = word_fn()
    parts = []
    idxs = []
    for j in range(w):
        idx = L.fmod(L.fdiv(v, 2 ** (11 * (w - 1 - j))), 2048)
        idx = L.define("slice", idx)
        idxs.append(idx)
        if j:
            parts.append(" ")
        parts.append(OStr(f(L.toint(idx)), "word", inj=("word", nw, idx) if distinct else None))
    return SStr(parts), idxs


class _MnemonicFromEntropy:
    """C04: for ENT in 128/160/192/224/256 bits the sentence has 12/15/18/21/24 words whose 11-bit indexes
    spell ENT || SHA-256(ENT)[:ENT/32 bits]; every other size is rejected (whitespace in the hex text does
    not change the size)"""
    target = "btc_hd_wallet.bip39.mnemonic_from_entropy"
    props = ("C04",)
    nbytes = 16

    def inputs(self, B):
        n = self.nbytes
        ent = B.bytes("entropy", n)
        ws = B.case("whitespace", 3)
        if B.concrete:
            hx = as_rope(ent).native().hex() if n else ""
            if ws and n > 1:
                hx = hx[:2] + " " * ws + hx[2:]
            return [hx], {}, NS(n=n, ent=ent, ws=ws)
        hx = HexStr(as_rope(ent)) if ws == 0 else HexStrWS(as_rope(ent), ws if ws == 1 else B.int("ws_count", 2, 200))
        return [hx], {}, NS(n=n, ent=ent, ws=ws)

    def post(self, c, I, out):
        if I.n not in SIZES:
            yield "raises.entropy_size_rejected", out.raised
            return
        yield "ensures.returns", out.returned
        if out.returned:
            if isinstance(out.value, str):
                yield "ensures.sentence", out.value == spec_sentence(I.ent)
                return
            spec, idxs = spec_sentence(I.ent)
            yield "ensures.word_count", isinstance(out.value, SStr) and sum(1 for p in out.value.parts if isinstance(p, OStr)) == SIZES[I.n]
            words = [p for p in out.value.parts if isinstance(p, OStr)] if isinstance(out.value, SStr) else []
            seps = [p for p in out.value.parts if not isinstance(p, OStr)] if isinstance(out.value, SStr) else []
            yield "ensures.single_space_separators", all(x == " " for x in seps) and len(seps) == max(0, len(words) - 1)
            # one conjunct per query (DESIGN §2.2 rule v): word j is the word at the j-th 11-bit group
            for j, (wj, ij) in enumerate(zip(words, idxs)):
                okj = wj.inj is not None and wj.inj[0] == "word"
                yield f"ensures.word[{j}]_index", eq(wj.inj[2], ij) if okj else False


for _n in list(SIZES) + [0, 1, 4, 8, 15, 17, 19, 31, 33, 40, 48, 64]:
    CONTRACTS.append(type(f"MnemonicFromEntropy_{_n}", (_MnemonicFromEntropy,), dict(nbytes=_n))())


@contract
class ChecksumLength:
    target = "btc_hd_wallet.bip39.checksum_length"
    props = ("C04",)

    def inputs(self, B):
        b = [128, 160, 192, 224, 256][B.case("bits", 5)]
        return [], dict(entropy_bits=b), NS(b=b)

    def post(self, c, I, out):
        yield "ensures.ent_div_32", out.returned and out.value == I.b // 32


@contract
class CorrectEntropyBits:
    target = "btc_hd_wallet.bip39.correct_entropy_bits_value"
    props = ("C04", "C08")

    def inputs(self, B):
        b = B.int("entropy_bits")
        return [], dict(entropy_bits=b), NS(b=b)

    def post(self, c, I, out):
        ok = lor(*[I.b == k for k in (128, 160, 192, 224, 256)])
        yield "raises.iff_not_a_bip39_size", iff(out.raised, lnot(ok))


@canary
class CanaryChecksumFromLastBits(_MnemonicFromEntropy):
    """must FAIL: spec takes the checksum from the LAST bits of the hash"""
    nbytes = 16

    def post(self, c, I, out):
        if out.returned and not isinstance(out.value, str):
            r = as_rope(I.ent)
            v = r.be() * 16 + L.fmod(U.sha256(r).be(), 16)
            f, nw, distinct = word_fn()
            parts = []
            for j in range(12):
                idx = L.fmod(L.fdiv(v, 2 ** (11 * (11 - j))), 2048)
                if j:
                    parts.append(" ")
                parts.append(OStr(f(L.toint(idx)), "word", inj=("word", nw, idx)))
            words = [p for p in out.value.parts if isinstance(p, OStr)]
            yield "canary.last_word", eq(words[-1].inj[2], parts[-1].inj[2])


# ------------------------------------------------------------------------------------------ C08: entropy source
import random as _random      # noqa: E402
from pyvc import models as M  # noqa: E402


def entropy_of_draw(r, nbytes, api):
    """the entropy that carries the drawn value losslessly: getrandbits(8 n) read big-endian IS the n OS bytes;
    randbytes(n) hands the same value out little-endian (the OS bytes reversed): either way every OS bit is used once"""
    return Rope([(r, nbytes, api == "randbytes")])


def _draw_model(source):
    def m(ctx, selfv, args, kw):
        k = L.simplify_native(args[0] if args else kw.get("k"))
        if is_sym(k):
            raise Undecided("getrandbits with a symbolic width")
        if isinstance(k, bool) or not isinstance(k, int) or len(args) + len(kw) != 1:
            raise Undecided("getrandbits call shape")
        if k < 0:
            raise PyRaise(ValueError, "number of bits must be non-negative")
        n = len([e for e in ctx.effects if e[0] == "draw"])
        r = z3.Int(f"drawn!{n}")
        ctx.assume(z3.And(r >= 0, r < 2 ** k))
        ctx.effects.append(("draw", (source, type(selfv).__name__, 0, 2 ** k, r, "getrandbits"), {}))
        return r
    m.always = True
    return m


def _randrange_model(source):
    def m(ctx, selfv, args, kw):
        a = [L.simplify_native(x) for x in args]
        lo, hi = (0, a[0]) if len(a) == 1 else (a[0], a[1])
        if is_sym(lo) or is_sym(hi) or len(a) > 2 or kw or not a:
            raise Undecided("randrange with symbolic bounds / step")
        if any(isinstance(x, bool) or not isinstance(x, int) for x in (lo, hi)):
            raise Undecided("randrange with non-integer bounds")
        if hi <= lo:
            raise PyRaise(ValueError, "empty range for randrange()")
        n = len([e for e in ctx.effects if e[0] == "draw"])
        r = z3.Int(f"drawn!{n}")
        ctx.assume(z3.And(r >= lo, r < hi))
        ctx.effects.append(("draw", (source, type(selfv).__name__, lo, hi, r, "randrange"), {}))
        return r
    m.always = True
    return m


def _randbytes_model(source):
    """Random.randbytes(n) = getrandbits(8 n).to_bytes(n, 'little') (CPython Lib/random.py): ONE draw of 8 n bits"""
    def m(ctx, selfv, args, kw):
        n = L.simplify_native(args[0] if args else kw.get("n"))
        if is_sym(n) or isinstance(n, bool) or not isinstance(n, int) or len(args) + len(kw) != 1:
            raise Undecided("randbytes call shape")
        if n < 0:
            raise PyRaise(ValueError, "negative argument not allowed")
        k = len([e for e in ctx.effects if e[0] == "draw"])
        r = z3.Int(f"drawn!{k}")
        ctx.assume(z3.And(r >= 0, r < 2 ** (8 * n)))
        ctx.effects.append(("draw", (source, type(selfv).__name__, 0, 2 ** (8 * n), r, "randbytes"), {}))
        return Rope([(r, n, True)]) if n else b""
    m.always = True
    return m


M.NATIVE_MODELS[(_random.SystemRandom, "randbytes", "inst")] = _randbytes_model("os.urandom")
M.NATIVE_MODELS[(_random.Random, "randbytes", "inst")] = _randbytes_model("seedable Mersenne Twister")
for _nm in ("random", "uniform", "choice", "choices", "shuffle", "sample", "triangular", "gauss", "betavariate", "expovariate"):
    for _cls in (_random.SystemRandom, _random.Random):
        M.NATIVE_MODELS[(_cls, _nm, "inst")] = (lambda nm: (lambda ctx, s_, a, k: (_ for _ in ()).throw(Undecided("random." + nm))))(_nm)
        M.NATIVE_MODELS[(_cls, _nm, "inst")].always = True
M.NATIVE_MODELS[(_random.SystemRandom, "getrandbits", "inst")] = _draw_model("os.urandom")
M.NATIVE_MODELS[(_random.Random, "getrandbits", "inst")] = _draw_model("seedable Mersenne Twister")
M.NATIVE_MODELS[(_random.SystemRandom, "randrange", "inst")] = _randrange_model("os.urandom")
M.NATIVE_MODELS[(_random.Random, "randrange", "inst")] = _randrange_model("seedable Mersenne Twister")
M.NATIVE_MODELS[(_random.SystemRandom, "randint", "inst")] = lambda ctx, s, a, k: (_ for _ in ()).throw(Undecided("randint"))
M.NATIVE_MODELS[(_random.Random, "randint", "inst")] = lambda ctx, s, a, k: (_ for _ in ()).throw(Undecided("randint"))


class _MnemonicFromEntropyBits:
    """C08: a fresh mnemonic of N words draws exactly once, ENT = 32N/3 bits, from the OS source
    (SystemRandom.getrandbits over os.urandom, assumption R1), over the FULL range [0, 2^ENT), and the
    sentence encodes exactly the drawn integer (so every drawn bit, including the top one, reaches the
    mnemonic); invalid sizes are refused before anything is drawn"""
    target = "btc_hd_wallet.bip39.mnemonic_from_entropy_bits"
    props = ("C08", "C04")
    bits = 128
    opts = dict(no_summary={"btc_hd_wallet.bip39.mnemonic_from_entropy"})      # inlined: the words must be visible

    def run_real(self, f, rargs, rkw, I):
        # observe the OS source from outside while the real function runs
        import os
        import random
        calls = []
        real = os.urandom

        def spy(n):
            calls.append(n)
            return real(n)
        os.urandom = spy
        random._urandom = spy
        state = random.getstate()
        try:
            random.seed(12345)
            a = f(*rargs, **rkw)
            random.seed(12345)
            b = f(*rargs, **rkw)
        finally:
            os.urandom = real
            random._urandom = real
            random.setstate(state)
        I.urandom_calls = calls
        I.second = b
        return a

    def inputs(self, B):
        return [], dict(entropy_bits=self.bits), NS(bits=self.bits)

    def post(self, c, I, out):
        bits = I.bits
        if bits not in (128, 160, 192, 224, 256):
            yield "raises.invalid_size", out.raised
            yield "ensures.nothing_drawn", not [e for e in c.effects if e[0] == "draw"]
            return
        yield "ensures.returns", out.returned
        if not out.returned:
            return
        if isinstance(out.value, str):
            from spec import bip39 as SB
            ent = SB.entropy_from_mnemonic(out.value)
            calls = getattr(I, "urandom_calls", [])
            yield "ensures.word_count", len(out.value.split(" ")) == bits * 3 // 32 and len(ent) * 8 == bits
            yield "ensures.os_source_asked_for_ENT_bits_per_mnemonic", len(calls) == 2 and all(8 * n >= bits for n in calls)
            yield "ensures.independent_of_the_seedable_generator", out.value != I.second
            return
        draws = [e[1] for e in c.effects if e[0] == "draw"]
        yield "ensures.exactly_one_draw", len(draws) == 1
        if len(draws) != 1:
            return
        source, cls, lo, hi, r, api = draws[0]
        yield "ensures.source_is_SystemRandom", source == "os.urandom" and cls == "SystemRandom"
        yield "ensures.full_range_0_to_2_ENT", lo == 0 and hi == 2 ** bits
        spec, idxs = spec_sentence(entropy_of_draw(r, bits // 8, api))
        words = [p for p in out.value.parts if isinstance(p, OStr)] if isinstance(out.value, SStr) else []
        yield "ensures.word_count", len(words) == bits * 3 // 32
        for j, (wj, ij) in enumerate(zip(words, idxs)):
            okj = wj.inj is not None and wj.inj[0] == "word"
            yield f"ensures.word[{j}]_encodes_the_drawn_integer", eq(wj.inj[2], ij) if okj else False


for _b in (128, 160, 192, 224, 256, 0, 64, 127, 129, 512):
    CONTRACTS.append(type(f"MnemonicFromEntropyBits_{_b}", (_MnemonicFromEntropyBits,), dict(bits=_b))())
