"""Modular call summaries: what a caller may assume about a repository function that has its own
contract elsewhere (the callee is verified separately against the same spec function).

  ripemd.ripemd160            -> U.ripemd160            (verified: contracts/c_ripemd.py, C05)
  helper.encode_base58_checksum(d) -> B58CHK_len(d)     (verified: contracts/c_base58.py, C10)
  helper.decode_base58_checksum(B58CHK_len(d)) -> d     (C10 inverse lemma)
"""
import z3
from pyvc import prims as U
from pyvc import logic as L
from pyvc.logic import Rope, as_rope, is_sym, simplify_native, INT
from pyvc.engine import SUMMARIES, SStr, OStr, PStr, PyRaise, Undecided, mk_str
from pyvc import engine as E

_B58CHK = {}
_B58 = {}
_ROPE_OF = {}       # term id -> (term, the rope it was built from): decode returns the same segmentation


def b58chk_fn(n):
    if n not in _B58CHK:
        _B58CHK[n] = z3.Function(f"B58CHK_{n}", INT, PStr)
    return _B58CHK[n]


def b58chk(rope):
    """spec: Base58Check string of a byte string of concrete length (opaque term; injective by C10)"""
    rope = as_rope(rope)
    if rope.is_concrete():
        from spec import base58 as SB
        return SB.b58check_encode(rope.native())
    v = rope.be()
    t = b58chk_fn(len(rope))(v)
    _ROPE_OF[t.get_id()] = (t, rope)
    return SStr([OStr(t, f"b58chk{len(rope)}", inj=("b58chk", rope))])


def s_encode_base58_checksum(ctx, args, kw):
    data = args[0] if args else kw["data"]
    data = simplify_native(data)
    if not isinstance(data, (Rope, bytes)):
        raise Undecided("encode_base58_checksum on non-rope")
    return b58chk(data)


def s_decode_base58_checksum(ctx, args, kw):
    s = args[0] if args else kw["s"]
    if isinstance(s, SStr) and len(s.parts) == 1 and isinstance(s.parts[0], OStr):
        t = s.parts[0].t
        if z3.is_app(t):
            hit = _ROPE_OF.get(t.get_id())
            if hit is not None and hit[0].eq(t):
                return hit[1]
            for n, f in _B58CHK.items():
                if t.decl().eq(f):
                    return Rope([(t.arg(0), n, False)])
    if isinstance(s, str):
        from btc_hd_wallet import helper
        try:
            return helper.decode_base58_checksum(s)
        except BaseException as e:
            raise PyRaise(type(e))
    raise Undecided("decode_base58_checksum of an arbitrary symbolic string")


def s_ripemd160(ctx, args, kw):
    d = simplify_native(args[0] if args else kw["data"])
    return U.ripemd160(d)


_SEGWIT = {}


def segwit_fn(n):
    if n not in _SEGWIT:
        _SEGWIT[n] = z3.Function(f"SEGWIT_{n}", INT, INT, INT, PStr)
    return _SEGWIT[n]


def hrp_code(hrp):
    if is_sym(hrp):
        return hrp
    return {"bc": 0, "tb": 1}.get(hrp, 2 + int.from_bytes(hrp.encode(), "big"))


def segwit_legal(witver, n):
    return L.land(witver >= 0, witver <= 16, 2 <= n <= 40, L.implies(witver == 0, n in (20, 32)))


def segwit_addr(testnet, witver, prog):
    """spec: BIP173/350 address of (hrp = tb|bc, witness version, program); opaque, injective by C11"""
    prog = as_rope(prog)
    tn = simplify_native(testnet)
    if prog.is_concrete() and not is_sym(tn) and not is_sym(witver):
        from spec import bech32 as SB
        return SB.encode("tb" if tn else "bc", witver, prog.native())
    code = L.ite(tn, 1, 0)
    return SStr([OStr(segwit_fn(len(prog))(L.toint(code), L.toint(witver), L.toint(prog.be())), f"segwit{len(prog)}",
                      inj=("segwit", code, witver, prog))])


def s_bech32_encode(ctx, args, kw):
    names = ["hrp", "witver", "witprog"]
    a = dict(zip(names, args))
    a.update(kw)
    hrp, witver, prog = a["hrp"], simplify_native(a["witver"]), simplify_native(a["witprog"])
    if not isinstance(hrp, str) or not isinstance(prog, (Rope, bytes)):
        raise Undecided("bech32.encode summary: unsupported argument shapes")
    prog = as_rope(prog)
    legal = segwit_legal(witver, len(prog))
    if not ctx.branch(legal):
        return None
    return SStr([OStr(segwit_fn(len(prog))(L.toint(hrp_code(hrp)), L.toint(witver), L.toint(prog.be())), f"segwit{len(prog)}",
                      inj=("segwit", hrp_code(hrp), witver, prog))])


def _new_child(ctx, selfref, o, key, cc, index):
    # the child is built by the class's own constructor (as the contract of ckd says: a new node of the
    # receiver's class with these constructor arguments), then recorded in the receiver's children list
    child = ctx.instantiate(o.cls, [], dict(key=key, chain_code=cc, index=index, depth=ctx.getattr(selfref, "depth") + 1,
                                            testnet=ctx.getattr(selfref, "testnet"), parent=selfref))
    chl = ctx.getattr(selfref, "children")
    lst = ctx.deref(chl)
    lst.items.append(child)
    ctx.writes.append((chl.oid, "append"))
    return child


def s_prv_ckd(ctx, args, kw):
    """callers of PrvKeyNode.ckd see its contract (contracts/c_bip32.py PrvCkd), not its body"""
    from .common import spec_prv_ckd_terms, N
    import ecdsa
    from btc_hd_wallet.bip32 import InvalidKeyError
    selfref = args[0]
    index = simplify_native(args[1] if len(args) > 1 else kw["index"])
    o = ctx.deref(selfref)
    import btc_hd_wallet.bip32 as _b32
    if o.cls is not _b32.PrvKeyNode:
        raise E.NoSummary()         # the contract PrvCkd is about PrvKeyNode receivers
    key = as_rope(simplify_native(ctx.getattr(selfref, "key")))
    if len(key) == 33 and ctx.branch(L.eq(key[0], 0)):
        key = key.slice(1, 33)
    if len(key) != 32:
        raise PyRaise(ecdsa.keys.MalformedPointError)
    k = key.be()
    if not ctx.branch(L.land(k >= 1, k < N)):
        raise PyRaise(ecdsa.keys.MalformedPointError)
    if not ctx.branch(L.land(index >= 0, index < 2 ** 32)):
        raise PyRaise(OverflowError)
    IL, IR, ki = spec_prv_ckd_terms(k, ctx.getattr(selfref, "chain_code"), index)
    if ctx.branch(L.lor(IL >= N, ki == 0)):
        raise PyRaise(InvalidKeyError)
    return _new_child(ctx, selfref, o, L.seg(ki, 32), IR, index)


def s_pub_ckd(ctx, args, kw):
    """callers of PubKeyNode.ckd see its contract (contracts/c_bip32.py PubCkd)"""
    from .common import spec_pub_ckd_terms, N, HARD
    import ecdsa
    from btc_hd_wallet.bip32 import InvalidKeyError
    selfref = args[0]
    index = simplify_native(args[1] if len(args) > 1 else kw["index"])
    o = ctx.deref(selfref)
    import btc_hd_wallet.bip32 as _b32
    if o.cls is not _b32.PubKeyNode:
        raise E.NoSummary()         # the contract PubCkd is about PubKeyNode receivers (an inherited / super() call is inlined)
    if ctx.branch(index >= HARD):
        raise PyRaise(RuntimeError)
    if ctx.branch(index < 0):
        raise PyRaise(OverflowError)
    key = as_rope(simplify_native(ctx.getattr(selfref, "key")))
    ok, pt = U.sec_parse(key)
    if not ctx.branch(ok):
        raise PyRaise(ecdsa.keys.MalformedPointError)
    IL, IR, Ki = spec_pub_ckd_terms(key, pt, ctx.getattr(selfref, "chain_code"), index)
    if ctx.branch(L.lor(IL >= N, IL == 0, Ki.sym_eq(U.inf()))):
        raise PyRaise(InvalidKeyError)
    return _new_child(ctx, selfref, o, U.sec(Ki, True), IR, index)


_MNEMONIC = {}


def mnemonic_term(rope):
    rope = as_rope(rope)
    n = len(rope)
    if rope.is_concrete():
        from spec import bip39 as SB
        return SB.mnemonic_from_entropy(rope.native())
    if n not in _MNEMONIC:
        _MNEMONIC[n] = z3.Function(f"MNEMONIC_{n}", INT, PStr)
    return SStr([OStr(_MNEMONIC[n](rope.be()), f"mnemonic{n}")])


def s_mnemonic_from_entropy(ctx, args, kw):
    """callers see: the BIP39 sentence of the decoded entropy for 16/20/24/28/32 bytes, ValueError otherwise
    (contracts/c_bip39.py, C04)"""
    from pyvc.engine import HexStr
    h = args[0] if args else kw["entropy"]
    if isinstance(h, HexStr) and type(h) is HexStr:
        r = h.rope
        if len(r) not in (16, 20, 24, 28, 32):
            raise PyRaise(ValueError)
        return mnemonic_term(r)
    if isinstance(h, str):
        from btc_hd_wallet import bip39
        try:
            return bip39.mnemonic_from_entropy(h)
        except BaseException as e:
            raise PyRaise(type(e))
    raise Undecided("mnemonic_from_entropy summary: unsupported argument")


def install():
    SUMMARIES["btc_hd_wallet.bip32.PrvKeyNode.ckd"] = s_prv_ckd
    SUMMARIES["btc_hd_wallet.bip32.PubKeyNode.ckd"] = s_pub_ckd
    SUMMARIES["btc_hd_wallet.bip39.mnemonic_from_entropy"] = s_mnemonic_from_entropy
    SUMMARIES["btc_hd_wallet.bech32.encode"] = s_bech32_encode
    SUMMARIES["btc_hd_wallet.helper.encode_base58_checksum"] = s_encode_base58_checksum
    SUMMARIES["btc_hd_wallet.helper.decode_base58_checksum"] = s_decode_base58_checksum
    SUMMARIES["btc_hd_wallet.ripemd.ripemd160"] = s_ripemd160


install()
