"""Sidecar contracts for btc_hd_wallet/paper_wallet.py + node-level helpers of base_wallet.py
(C06 records, C15 paranoia input side, C16 network tags, C14 watch-only rows)."""
from . import summaries as _SUM_ALWAYS      # noqa: F401,E402  (summaries installed independent of import order)
import z3
from pyvc import prims as U
from pyvc import logic as L
from pyvc import engine as E
from pyvc.logic import (Rope, as_rope, is_sym, land, lor, lnot, implies, iff, eq, ite, seg, simplify_native)
from pyvc.engine import Ref, HObj, HList, HDict, SymList, SStr, Dec, OStr, Undecided, PyRaise, mk_str, PStr, ModelObj
from pyvc.verify import NS
from .common import (repo, HARD, N, sym_prv_node, sym_pub_node, serP, fingerprint_of_point)
from . import summaries as SUM
from .c_wallet_utils import slip132_version
from .c_base_wallet import sym_wallet, spec_address, sym_text
from .c_bip85 import spec_derive_prv, spec_derive_pub
from .c_keys import spec_wif_payload

CONTRACTS = []
CANARIES = []


def contract(cls):
    CONTRACTS.append(cls())
    return cls


def canary(cls):
    CANARIES.append(cls())
    return cls


def small_interval(B):
    """[start, end) inside [0, 2^31]; concrete sampling keeps it to a handful of rows"""
    a = B.int("start", 0, HARD + 1)
    if B.concrete:
        b = min(HARD, max(0, a + B.int("rows", -1, 4)))
        B.vals["end"] = b
        return a, b
    return a, B.int("end", 0, HARD + 1)


PURPOSE = {"bip44": (44, 0, "p2pkh"), "bip49": (49, 1, "p2sh_p2wpkh"), "bip84": (84, 2, "p2wpkh")}


def spec_xkey(version, depth, parent_fp, index, cc, keydata):
    return SUM.b58chk(seg(version, 4) + seg(depth, 1) + as_rope(parent_fp) + seg(index, 4) + as_rope(cc) + as_rope(keydata))


def spec_account(m, purpose, account):
    """-> (bad, path list, per-level (k, cc)) of m/purpose'/coin'/account' with coin = 1' on testnet"""
    coin = ite(m.testnet, 1, 0)
    path = [purpose + HARD, coin + HARD, account + HARD]
    bad, k, cc, levels = spec_derive_prv(m.k, m.cc, path)
    return bad, path, levels


class _BipGroup:
    """C06/C16: account at m/purpose'/coin'/account' with SLIP-132 keys; one row per index of [start, end)
    on chain 0, in order; path, address, SEC and WIF of a row belong to the same node"""
    which = "bip44"
    props = ("C06", "C16", "C13", "C15")

    @property
    def target(self):
        return f"btc_hd_wallet.paper_wallet.PaperWallet.{self.which}"

    def inputs(self, B):
        w, wn = sym_wallet(B, private=True)
        account = B.int("account", 0, HARD)
        a, b = small_interval(B)
        return [w], dict(account=account, interval=(a, b)), NS(w=wn, account=account, a=a, b=b)

    def modifies(self, c, I):
        return {(I.w.master.children.oid, "items")}

    def post(self, c, I, out):
        m = I.w.master
        purpose, bipidx, kind = PURPOSE[self.which]
        bad_acct, path, lv = spec_account(m, purpose, I.account)
        (k2, cc2), (k3, cc3) = lv[1], lv[2]
        bad_chain, kc, ccc, lvc = spec_derive_prv(k3, cc3, [0])
        yield "raises.only_if_invalid_child", implies(out.raised, True)     # refined per element below
        if not out.returned:
            return
        v = out.value
        ok = isinstance(v, tuple) and len(v) == 2 and isinstance(v[0], Ref) and isinstance(c.deref(v[0]), HDict)
        yield "ensures.shape_keys_and_rows", ok
        if not ok:
            return
        keys = c.deref(v[0]).d
        coin = ite(m.testnet, 1, 0)
        yield "ensures.acct.fields", set(keys) == {"path", "pub", "prv"}
        yield "ensures.acct.path", eq(keys.get("path"), mk_str([f"m/{purpose}'/", Dec(coin), "'/", Dec(I.account), "'"]))
        fp2 = fingerprint_of_point(U.ecmul(k2))
        depth3 = m.depth + 3
        yield "ensures.acct.pub_slip132", eq(keys.get("pub"), spec_xkey(slip132_version(False, bipidx, m.testnet), depth3, fp2,
                                                                      I.account + HARD, cc3, serP(U.ecmul(k3))))
        yield "ensures.acct.prv_slip132", eq(keys.get("prv"), spec_xkey(slip132_version(True, bipidx, m.testnet), depth3, fp2,
                                                                      I.account + HARD, cc3, Rope.of(b"\x00") + seg(k3, 32)))
        rows = v[1]
        if isinstance(rows, Ref) and isinstance(c.deref(rows), HList) and isinstance(I.a, int):
            items = c.deref(rows).items
            yield "ensures.rows.count", len(items) == max(0, I.b - I.a) and c.deref(rows).base is None
            for off, row in enumerate(items[:5]):
                j = I.a + off
                badj, kj, ccj, _ = spec_derive_prv(kc, ccc, [j])
                r = c.deref(row).items
                ptj = U.ecmul(kj)
                yield "ensures.row.four_columns", len(r) == 4
                yield "ensures.row.path", r[0] == f"m/{purpose}'/{int(bool(m.testnet))}'/{I.account}'/0/{j}"
                yield "ensures.row.address", eq(r[1], spec_address(kind, ptj, m.testnet))
                yield "ensures.row.sec_hex", r[2] == as_rope(serP(ptj)).native().hex()
                yield "ensures.row.wif", eq(r[3], SUM.b58chk(spec_wif_payload(kj, True, m.testnet)))
            return
        if isinstance(rows, Ref) and isinstance(c.deref(rows), HList):
            yield "ensures.rows.empty_only_for_empty_interval", land(len(c.deref(rows).items) == 0, I.a >= I.b)
            return
        okr = isinstance(rows, SymList)
        yield "ensures.rows.map_over_interval", okr
        if not okr:
            return
        yield "ensures.rows.bounds", land(eq(rows.lo, I.a), eq(rows.hi, I.b))
        j = rows.j
        badj, kj, ccj, _ = spec_derive_prv(kc, ccc, [j])
        row = rows.elem
        okrow = isinstance(row, Ref) and isinstance(c.deref(row), HList) and c.deref(row).base is None and len(c.deref(row).items) == 4
        yield "ensures.row.four_columns", okrow
        if not okrow:
            return
        r = c.deref(row).items
        ptj = U.ecmul(kj)
        yield "ensures.row.path", eq(r[0], mk_str([f"m/{purpose}'/", Dec(coin), "'/", Dec(I.account), "'/0/", Dec(j)]))
        yield "ensures.row.address", eq(r[1], spec_address(kind, ptj, m.testnet))
        yield "ensures.row.sec_hex", eq(r[2], E.HexStr(serP(ptj)))
        yield "ensures.row.wif", eq(r[3], SUM.b58chk(spec_wif_payload(kj, True, m.testnet)))


for _w in PURPOSE:
    CONTRACTS.append(type("Group_" + _w, (_BipGroup,), dict(which=_w))())


class _BipGroupWatchOnly:
    """C14: the account level is hardened, so a watch-only wallet refuses (never a key)"""
    which = "bip44"
    props = ("C14",)

    @property
    def target(self):
        return f"btc_hd_wallet.paper_wallet.PaperWallet.{self.which}"

    def inputs(self, B):
        w, wn = sym_wallet(B, private=False)
        account = B.int("account", 0, HARD)
        a, b = B.int("start", 0, HARD + 1), B.int("end", 0, HARD + 1)
        return [w], dict(account=account, interval=(a, b)), NS(w=wn)

    def post(self, c, I, out):
        yield "raises.hardened_refused_on_watch_only", out.raised
        yield "ensures.no_child_derived", len(c.deref(I.w.master.children).items) == 0


for _w in PURPOSE:
    CONTRACTS.append(type("GroupWatchOnly_" + _w, (_BipGroupWatchOnly,), dict(which=_w))())


@contract
class GroupRowsWatchOnly:
    """C14: rows of a watch-only wallet carry public data only; the WIF column is None"""
    target = "btc_hd_wallet.paper_wallet.PaperWallet.group"
    props = ("C14", "C06")

    def inputs(self, B):
        w, wn = sym_wallet(B, private=False)
        nref, nn = sym_pub_node(B, "node", with_parent=False)
        R = repo()
        fn = E.BoundMeth(vars(R.bw.BaseWallet)["p2wpkh_address"], w)
        return [w], dict(nodes=B.list([nref]), addr_fnc=fn), NS(w=wn, n=nn)

    def post(self, c, I, out):
        yield "ensures.returns", out.returned
        if out.returned:
            rows = c.deref(out.value).items
            r = c.deref(rows[0]).items
            yield "ensures.one_row_four_columns", len(rows) == 1 and len(r) == 4
            yield "ensures.path_is_root_mark", eq(r[0], "M")
            yield "ensures.address", eq(r[1], spec_address("p2wpkh", I.n.pt, I.w.testnet))
            yield "ensures.sec_hex", eq(r[2], E.HexStr(as_rope(I.n.key)))
            yield "ensures.wif_is_None", r[3] is None


@contract
class NodeExtendedKeysWatchOnly:
    """C14: node_extended_keys of a watch-only wallet: prv is None, pub is the SLIP-132 public key"""
    target = "btc_hd_wallet.base_wallet.BaseWallet.node_extended_keys"
    props = ("C14", "C16")

    def inputs(self, B):
        w, wn = sym_wallet(B, private=False)
        return [w], dict(node=wn.master.ref), NS(w=wn)

    def post(self, c, I, out):
        m = I.w.master
        yield "ensures.returns", out.returned
        if out.returned:
            d = c.deref(out.value).d
            yield "ensures.prv_is_None", d.get("prv") is None and set(d) == {"path", "pub", "prv"}
            yield "ensures.path", eq(d.get("path"), "M")
            fp = ite(land(m.depth == 0, m.index == 0), 0, (as_rope(m.ppf).be() if m.ppf is not None else 0))
            yield "ensures.pub_on_wallet_network", eq(d.get("pub"), spec_xkey(slip132_version(False, 0, I.w.testnet), m.depth, seg(fp, 4),
                                                                          m.index, m.cc, m.key))


class Text(L.SymVal):
    """text built by concatenating opaque pieces (tagged callee results, literals): only `+` is understood"""
    def __init__(self, pieces):
        out = []
        for p in pieces:
            for q in (p.pieces if isinstance(p, Text) else [p]):
                q = L.simplify_native(q)
                if isinstance(q, SStr) and q.native() is not None:
                    q = q.native()
                if isinstance(q, str) and q == "":
                    continue
                if isinstance(q, str) and out and isinstance(out[-1], str):
                    out[-1] += q
                else:
                    out.append(q)
        self.pieces = out

    def sym_type(self):
        return str

    def sym_binop(self, ctx, op, other, reflected):
        import ast as _ast
        if isinstance(op, _ast.Add):
            return Text([other, self] if reflected else [self, other])
        raise Undecided("text used other than by concatenation")

    def __repr__(self):
        return f"Text({self.pieces})"


class Tagged(L.SymVal):
    """opaque result of a summarised callee, tagged with the call it came from"""
    TEXT_TAGS = ("json", "wasabi_json")         # callees that return text

    def __init__(self, tag, **kw):
        self.tag, self.kw = tag, kw

    def sym_type(self):
        if self.tag in self.TEXT_TAGS:
            return str
        raise Undecided("type of the result of " + self.tag)

    def sym_binop(self, ctx, op, other, reflected):
        import ast as _ast
        if isinstance(op, _ast.Add):
            return Text([other, self] if reflected else [self, other])
        raise Undecided("tagged value used other than by concatenation")

    def sym_eq(self, other):
        return other is self

    def sym_truthy(self, ctx):
        return True

    def __repr__(self):
        return f"Tagged({self.tag})"


def emitted(eff, channel="stdout"):
    """everything written to a channel, in order, as one list of pieces (adjacent literals merged): the CONTENT
    that reaches the channel, however many write()/print() calls produced it"""
    return Text([x for e in eff if e[0] == channel + ".write" for x in e[1]]).pieces


def _tag_summary(tag, names, n_results=1):
    def s(ctx, args, kw):
        a = dict(zip(["self_"] + names, args))
        a.update(kw)
        if n_results == 1:
            return Tagged(tag, **a)
        return tuple(Tagged(f"{tag}[{i}]", **a) for i in range(n_results))
    return s


@contract
class Generate:
    """C06/C15: generate() wires MASTER/BIP85/BIP44/BIP49/BIP84 from the five sub-results with the SAME
    account and interval (callees by contract: modular)"""
    target = "btc_hd_wallet.paper_wallet.PaperWallet.generate"
    props = ("C06", "C15", "C13")

    def run(self, ctx, f, args, kwargs, I):
        saved = dict(E.SUMMARIES)
        pre = "btc_hd_wallet.paper_wallet.PaperWallet."
        try:
            for w in PURPOSE:
                E.SUMMARIES[pre + w] = _tag_summary(w, ["account", "interval"], 2)
            E.SUMMARIES[pre + "master_data"] = _tag_summary("master_data", [])
            E.SUMMARIES[pre + "bip85_data"] = _tag_summary("bip85_data", [])
            return ctx.call_value(f, args, kwargs)
        finally:
            E.SUMMARIES.clear()
            E.SUMMARIES.update(saved)

    def inputs(self, B):
        if B.concrete:
            raise Undecided("generate() over tagged callees has no concrete replay (covered by the C20 process-level harness)")
        w, wn = sym_wallet(B, private=True)
        account = B.int("account", 0, HARD)
        a, b = B.int("start", 0, HARD + 1), B.int("end", 0, HARD + 1)
        return [w], dict(account=account, interval=(a, b)), NS(w=wn, account=account, a=a, b=b)

    def post(self, c, I, out):
        yield "ensures.returns", out.returned
        if not out.returned:
            return
        d = c.deref(out.value).d
        yield "ensures.top_level_keys", sorted(d) == sorted(["MASTER", "BIP85", "BIP44", "BIP49", "BIP84"])         # (order of a JSON object is not content)

        def is_tag(v, tag):
            return isinstance(v, Tagged) and v.tag == tag and v.kw.get("self_") == I.w.ref
        yield "ensures.MASTER", is_tag(d.get("MASTER"), "master_data")
        yield "ensures.BIP85", is_tag(d.get("BIP85"), "bip85_data")
        for w in PURPOSE:
            sec = d.get(w.upper())
            ok = isinstance(sec, Ref) and isinstance(c.deref(sec), HDict) and list(c.deref(sec).d) == ["account_extended_keys", "groups"]
            yield f"ensures.{w.upper()}.shape", ok
            if ok:
                sd = c.deref(sec).d
                k0, g0 = sd["account_extended_keys"], sd["groups"]
                yield f"ensures.{w.upper()}.account_keys", is_tag(k0, w + "[0]")
                yield f"ensures.{w.upper()}.groups", is_tag(g0, w + "[1]")
                if isinstance(k0, Tagged) and isinstance(g0, Tagged):
                    yield f"ensures.{w.upper()}.same_account_and_interval", land(
                        eq(k0.kw.get("account"), I.account), eq(k0.kw.get("interval"), (I.a, I.b)))


@contract
class MasterData:
    target = "btc_hd_wallet.paper_wallet.PaperWallet.master_data"
    props = ("C06",)

    def inputs(self, B):
        w, wn = sym_wallet(B, private=True)
        m, p = sym_text(B, "mnemonic"), sym_text(B, "password")
        B.ctx.deref(w).fields["mnemonic"] = m
        B.ctx.deref(w).fields["password"] = p
        return [w], {}, NS(m=m, p=p)

    def post(self, c, I, out):
        yield "ensures.returns", out.returned
        if out.returned:
            d = c.deref(out.value).d
            yield "ensures.echo", land(set(d) == {"mnemonic", "password"}, eq(d.get("mnemonic"), I.m), eq(d.get("password"), I.p))


@contract
class JsonRender:
    """C06: json(data) renders exactly the given data (json.dumps); a falsy `data` means generate()"""
    target = "btc_hd_wallet.paper_wallet.PaperWallet.json"
    props = ("C06", "C15", "C20")

    def run(self, ctx, f, args, kwargs, I):
        saved = dict(E.SUMMARIES)
        try:
            E.SUMMARIES["btc_hd_wallet.paper_wallet.PaperWallet.generate"] = _tag_summary("generate", ["account", "interval"])
            return ctx.call_value(f, args, kwargs)
        finally:
            E.SUMMARIES.clear()
            E.SUMMARIES.update(saved)

    def inputs(self, B):
        if B.concrete:
            raise Undecided("json() over tagged data has no concrete replay")
        w, wn = sym_wallet(B, private=True)
        kind = B.case("data", 3)
        data = [None, B.ctx.alloc(HDict({})), B.ctx.alloc(HDict({"BIP44": Tagged("x")}))][kind]
        indent = [None, 4][B.case("indent", 2)]
        return [w], dict(data=data, indent=indent), NS(w=wn, data=data, kind=kind, indent=indent)

    def post(self, c, I, out):
        yield "ensures.returns", out.returned
        if out.returned:
            v = out.value
            ok = isinstance(v, ModelObj) and v.kind == "json"
            yield "ensures.is_json_dumps", ok
            if ok:
                yield "ensures.indent", v.f["indent"] == I.indent
                if I.kind == 2:
                    yield "ensures.renders_given_data", v.f["data"] == I.data
                else:
                    yield "ensures.default_is_generate", isinstance(v.f["data"], Tagged) and v.f["data"].tag == "generate" \
                        and v.f["data"].kw.get("self_") == I.w.ref and "account" not in v.f["data"].kw


@contract
class WasabiJson:
    """C06/C16: the Wasabi export carries the extended public key at m/84'/0'/0' and the master fingerprint"""
    target = "btc_hd_wallet.paper_wallet.PaperWallet.wasabi_json"
    props = ("C06", "C16")

    def inputs(self, B):
        w, wn = sym_wallet(B, private=True)
        return [w], {}, NS(w=wn)

    def modifies(self, c, I):
        return {(I.w.master.children.oid, "items")}

    def post(self, c, I, out):
        m = I.w.master
        bad, k, cc, lv = spec_derive_prv(m.k, m.cc, [84 + HARD, 0 + HARD, 0 + HARD])
        yield "raises.only_if_invalid_child", implies(out.raised, bad)
        if out.returned and isinstance(out.value, str):
            import json as _json
            d = _json.loads(out.value)
            fp2 = fingerprint_of_point(U.ecmul(lv[1][0]))
            ver = 0x043587CF if m.testnet else 0x0488B21E
            yield "ensures.ExtPubKey", d.get("ExtPubKey") == spec_xkey(ver, m.depth + 3, fp2, HARD, cc, serP(U.ecmul(k)))
            yield "ensures.MasterFingerprint", d.get("MasterFingerprint") == as_rope(fingerprint_of_point(U.ecmul(m.k))).native().hex().upper()
            yield "ensures.keys", set(d) == {"ExtPubKey", "MasterFingerprint", "ColdCardFirmwareVersion"}
            return
        if out.returned:
            v = out.value
            ok = isinstance(v, ModelObj) and v.kind == "json" and isinstance(v.f["data"], Ref)
            yield "ensures.is_json", ok
            if ok:
                d = c.deref(v.f["data"]).d
                fp2 = fingerprint_of_point(U.ecmul(lv[1][0]))
                ver = ite(m.testnet, 0x043587CF, 0x0488B21E)
                yield "ensures.ExtPubKey", eq(d.get("ExtPubKey"), spec_xkey(ver, m.depth + 3, fp2, HARD, cc, serP(U.ecmul(k))))
                yield "ensures.MasterFingerprint", eq(d.get("MasterFingerprint"), E.HexStrUpper(fingerprint_of_point(U.ecmul(m.k))))
                yield "ensures.keys", set(d) == {"ExtPubKey", "MasterFingerprint", "ColdCardFirmwareVersion"}


class CanaryCoinTypeAlwaysZero(_BipGroup):
    """must FAIL: spec with coin type 0' on both networks"""
    which = "bip44"
    props = ("C06", "C16")

    def post(self, c, I, out):
        if out.returned and isinstance(out.value, tuple):
            keys = c.deref(out.value[0]).d
            yield "canary.coin0", eq(keys.get("path"), mk_str(["m/44'/0'/", Dec(I.account), "'"]))


CANARIES += [CanaryCoinTypeAlwaysZero()]


# ------------------------------------------------------------------------------------------ node_extended_keys on derived nodes
from .common import mk_node      # noqa: E402


class _NodeExtendedKeysDeep:
    """C06/C14/C16: extended keys of ANY node below the wallet's root carry the WALLET's network and the SLIP-132
    flavour named by the first path component (44'/49'/84', anything else: x/t); prv only for private wallets.
    The node is `levels` derivation steps below the root, with arbitrary indexes."""
    target = "btc_hd_wallet.base_wallet.BaseWallet.node_extended_keys"
    props = ("C06", "C14", "C16")
    levels = 2
    private = True

    def inputs(self, B):
        R = repo()
        w, wn = sym_wallet(B, private=self.private)
        cls = R.bip32.PrvKeyNode if self.private else R.bip32.PubKeyNode
        parent = wn.master.ref
        chain = []
        for lv in range(self.levels):
            hard = bool(B.case(f"lv{lv}_hardened", 2)) if self.private else False
            idx = B.int(f"lv{lv}_index", HARD, 2 ** 32) if hard else B.int(f"lv{lv}_index", 0, HARD)
            if self.private:
                k = B.int(f"lv{lv}_k", 1, N)
                key = seg(k, 32)
                pt = U.ecmul(k)
            else:
                from .common import sym_sec33
                key, pt = sym_sec33(B, f"lv{lv}_key")
                k = None
            cc = B.bytes(f"lv{lv}_cc", 32)
            ref = mk_node(B, cls, key=key, chain_code=cc, index=idx, depth=wn.master.depth + lv + 1, testnet=wn.testnet, parent=parent,
                          children=B.list_sym(f"lv{lv}_children"))
            chain.append(NS(ref=ref, k=k, key=key, pt=pt, cc=cc, idx=idx, hard=hard))
            parent = ref
        return [w], dict(node=chain[-1].ref), NS(w=wn, chain=chain)

    def post(self, c, I, out):
        m = I.w.master
        yield "ensures.returns", out.returned
        if not out.returned:
            return
        d = c.deref(out.value).d
        node = I.chain[-1]
        par_pt = I.chain[-2].pt if len(I.chain) > 1 else (U.ecmul(m.k) if self.private else m.pt)
        fp = fingerprint_of_point(par_pt)
        first = I.chain[0].idx
        bip = ite(first == 49 + HARD, 1, ite(first == 84 + HARD, 2, 0))
        mark = "m" if self.private else "M"
        parts = [mark]
        for n in I.chain:
            parts += ["/"] + ([Dec(n.idx - HARD), "'"] if n.hard else [Dec(n.idx)])
        yield "ensures.path", eq(d.get("path"), mk_str(parts))
        depth = m.depth + len(I.chain)
        yield "ensures.pub_wallet_network_and_purpose_flavour", eq(d.get("pub"), spec_xkey(
            slip132_version(False, bip, I.w.testnet), depth, fp, node.idx, node.cc, serP(node.pt)))
        if self.private:
            yield "ensures.prv_wallet_network_and_purpose_flavour", eq(d.get("prv"), spec_xkey(
                slip132_version(True, bip, I.w.testnet), depth, fp, node.idx, node.cc, Rope.of(b"\x00") + seg(node.k, 32)))
        else:
            yield "ensures.prv_is_None", d.get("prv") is None


for _priv in (True, False):
    for _lv in (1, 2, 3):
        CONTRACTS.append(type(f"NodeExtendedKeysDeep{'Prv' if _priv else 'Pub'}{_lv}", (_NodeExtendedKeysDeep,), dict(private=_priv, levels=_lv))())


@contract
class ExportToFile:
    """C20: export_to_file opens exactly the requested path for writing, writes exactly the contents, and touches
    no other file (no temporary siblings, no renames)"""
    target = "btc_hd_wallet.paper_wallet.PaperWallet.export_to_file"
    props = ("C20",)

    def _with_hook(self, frame, s):
        import ast as _ast
        ctx = frame.ctx
        if len(s.items) != 1:
            raise Undecided("with: several items")
        call = s.items[0].context_expr
        if not (isinstance(call, _ast.Call) and isinstance(call.func, _ast.Name) and call.func.id == "open"):
            raise Undecided("with: not open(...)")
        args = [frame.ev(a) for a in call.args]
        kw = {k.arg: frame.ev(k.value) for k in call.keywords}
        ctx.effects.append(("open", tuple(args), kw))
        from pyvc.engine import Mock
        f = Mock("file")
        if s.items[0].optional_vars is not None:
            frame.assign(s.items[0].optional_vars, f)
        frame.exec_block(s.body)
        ctx.effects.append(("close", (), {}))

    def __init__(self):
        self.opts = dict(with_hook=self._with_hook)

    def run_real(self, f, rargs, rkw, I):
        import tempfile, os, shutil
        d = tempfile.mkdtemp(prefix="vexp_")
        try:
            name = "wallet.json"
            decoys = {n: "KEEP-" + n for n in (name + ".tmp", name + ".bak", name + "~", "." + name + ".swp", "wallet", "wallet.json.part", "tmp")}
            for n, txt in decoys.items():
                open(os.path.join(d, n), "w").write(txt)
            target = os.path.join(d, name)
            f(file_path=target, contents="CONTENTS")
            I.after = {n: (open(os.path.join(d, n)).read() if os.path.isfile(os.path.join(d, n)) else None) for n in os.listdir(d)}
            I.decoys = decoys
            I.name = name
            return None
        finally:
            shutil.rmtree(d, ignore_errors=True)

    def inputs(self, B):
        from .c_main import Leaf
        p, cts = Leaf("file_path"), Leaf("contents")
        if B.concrete:
            return [], dict(file_path="x", contents="y"), NS(p=p, cts=cts)
        return [], dict(file_path=p, contents=cts), NS(p=p, cts=cts)

    def post(self, c, I, out):
        yield "ensures.returns", out.returned
        if hasattr(I, "after"):
            want = dict(I.decoys)
            want[I.name] = "CONTENTS"
            yield "ensures.only_the_requested_file_is_written", I.after == want
            return
        eff = c.effects
        ok = len(eff) == 3 and eff[0][0] == "open" and eff[1][0] == "file.write" and eff[2][0] == "close"
        yield "ensures.one_open_one_write", ok
        if ok:
            oa, okw = eff[0][1], eff[0][2]
            # (text encoding / newline / error handling arguments do not change which file is written or what JSON it holds)
            yield "ensures.opens_the_requested_path_for_writing", len(oa) >= 1 and oa[0] is I.p and (list(oa[1:]) + [okw.get("mode")])[0] in ("w", "wt", "x", "xt") \
                and not (set(okw) - {"mode", "encoding", "newline", "errors"}) and len(oa) <= 2
            yield "ensures.writes_exactly_the_contents", len(eff[1][1]) == 1 and eff[1][1][0] is I.cts


class _OutputChannel:
    """shared machinery of pprint / export_wallet: json(), generate() and export_to_file() by contract
    (JsonRender, Generate, ExportToFile), sys.stdout.write recorded as an effect"""
    def run(self, ctx, f, args, kwargs, I):
        import sys as _sys
        from pyvc import models as M
        saved = dict(E.SUMMARIES)
        pre = "btc_hd_wallet.paper_wallet.PaperWallet."
        key = (type(_sys.stdout), "write", "inst")
        old = M.NATIVE_MODELS.get(key)

        def m_write(c, self_, a, k):
            c.effects.append(("stderr.write" if self_ is _sys.stderr else "stdout.write", tuple(a), dict(k)))
            return None
        m_write.always = True
        import builtins as _bi
        old_print = M.NATIVE_MODELS.get(_bi.print)

        def m_print(c, a, k):
            if set(k) - {"sep", "end", "file", "flush"}:
                raise Undecided("print with unmodelled arguments")
            f_ = k.get("file")
            ch = "stderr.write" if f_ is _sys.stderr else ("stdout.write" if f_ is None or f_ is _sys.stdout else None)
            if ch is None:
                raise Undecided("print to another file")
            sep, end = k.get("sep", " "), k.get("end", "\n")
            sep = " " if sep is None else sep
            end = "\n" if end is None else end
            pieces = []
            for i, x in enumerate(a):
                if i:
                    pieces.append(sep)
                if not isinstance(x, (str, Tagged, Text, SStr)):
                    raise Undecided("print of a non-string")
                pieces.append(x)
            pieces.append(end)
            c.effects.append((ch, (Text(pieces),), {}))
            return None
        m_print.always = True
        M.NATIVE_MODELS[_bi.print] = m_print

        def s_export(c, a, k):
            c.effects.append(("export_to_file", tuple(a), dict(k)))
            if getattr(I, "export_fails", False):
                raise PyRaise(OSError, "cannot write")       # exceptional postcondition of open()/write()
            return None
        try:
            E.SUMMARIES[pre + "generate"] = _tag_summary("generate", ["account", "interval"])
            E.SUMMARIES[pre + "json"] = _tag_summary("json", ["data", "indent"])
            E.SUMMARIES[pre + "export_to_file"] = s_export
            M.NATIVE_MODELS[key] = m_write
            return ctx.call_value(f, args, kwargs)
        finally:
            E.SUMMARIES.clear()
            E.SUMMARIES.update(saved)
            if old is None:
                M.NATIVE_MODELS.pop(key, None)
            else:
                M.NATIVE_MODELS[key] = old
            if old_print is None:
                M.NATIVE_MODELS.pop(_bi.print, None)
            else:
                M.NATIVE_MODELS[_bi.print] = old_print

    def inputs(self, B):
        if B.concrete:
            raise Undecided("output channel over summarised callees has no concrete replay (covered by the C20 process-level harness)")
        w, wn = sym_wallet(B, private=True)
        kind = B.case("data", 3)
        data = [None, B.ctx.alloc(HDict({})), B.ctx.alloc(HDict({"BIP44": Tagged("x")}))][kind]
        ind = B.case("indent", 2)
        kw = dict(data=data)
        if ind:
            kw["indent"] = 2
        fails = False
        if self.with_path:
            from .c_main import Leaf
            kw["file_path"] = Leaf("file_path")
            fails = bool(B.case("export_fails", 2))
        return [w], kw, NS(w=wn, data=data, kind=kind, indent=2 if ind else 4, path=kw.get("file_path"), export_fails=fails, kw_given=set(kw))

    def _json_ok(self, v, I):
        """v is json(self, data=<the given non-empty data, else generate() with default arguments>, indent=indent)"""
        if not (isinstance(v, Tagged) and v.tag == "json" and v.kw.get("self_") == I.w.ref and set(v.kw) == {"self_", "data", "indent"}):
            return False
        d = v.kw["data"]
        if I.kind == 2:
            okd = d == I.data
        else:
            okd = isinstance(d, Tagged) and d.tag == "generate" and d.kw.get("self_") == I.w.ref and set(d.kw) == {"self_"}
        return okd          # (the indent width is layout, not content: not constrained)


@contract
class Pprint(_OutputChannel):
    """C20/C15: pprint(data) writes json(data) of exactly the data it was given (the paranoia-filtered dictionary
    when main() filtered) followed by one line separator, to standard output and nowhere else; only a falsy
    `data` means generate()"""
    target = "btc_hd_wallet.paper_wallet.PaperWallet.pprint"
    props = ("C20", "C15")
    with_path = False

    def post(self, c, I, out):
        import os as _os
        yield "ensures.returns_none", out.returned and out.value is None
        eff = c.effects
        yield "ensures.only_standard_output_is_written", all(e[0] == "stdout.write" for e in eff)
        txt = emitted(eff)
        # the CONTENT: json of the given data followed by one line end, however it was written (write/print, 1..n calls)
        ok = len(txt) == 2 and txt[1] in ("\n", _os.linesep)
        yield "ensures.stdout_is_one_json_document_and_a_line_end", ok
        if ok:
            yield "ensures.first_write_is_json_of_the_given_data", self._json_ok(txt[0], I)


@contract
class ExportWallet(_OutputChannel):
    """C20/C15: export_wallet(file_path, data) hands json(data) of exactly the given data to export_to_file for
    exactly the given path, once, and writes nothing to standard output"""
    target = "btc_hd_wallet.paper_wallet.PaperWallet.export_wallet"
    props = ("C20", "C15")
    with_path = True

    def post(self, c, I, out):
        eff = c.effects
        if I.export_fails:
            # a failed write is reported (the OSError reaches the caller: non-zero exit of the CLI) and no wallet
            # data goes to standard output instead
            yield "raises.write_failure_is_propagated", out.raised_a(OSError)
            yield "ensures.write_failure_emits_nothing_on_stdout", not emitted(eff)
            return
        yield "ensures.returns_none", out.returned and out.value is None
        ok = [e[0] for e in eff if e[0] != "stderr.write"] == ["export_to_file"] and not emitted(eff)
        yield "ensures.one_export_and_nothing_on_stdout", ok
        if ok:
            eff = [e for e in eff if e[0] == "export_to_file"]
            names = ["file_path", "contents"]
            kw = dict(zip(names, [a for a in eff[0][1] if not (isinstance(a, Ref) and a == I.w.ref)]))
            kw.update(eff[0][2])
            yield "ensures.path_is_the_requested_path", kw.get("file_path") is I.path and set(kw) == {"file_path", "contents"}
            yield "ensures.contents_is_json_of_the_given_data", self._json_ok(kw.get("contents"), I)


class CanaryPprintAlwaysGenerates(Pprint):
    """must FAIL: claims pprint renders generate() even when data was given"""
    def _json_ok(self, v, I):
        d = v.kw["data"] if isinstance(v, Tagged) else None
        return isinstance(d, Tagged) and d.tag == "generate"


CANARIES.append(CanaryPprintAlwaysGenerates())


@contract
class Bip85Data:
    """C12/C06: every entry of the BIP85 block is the application result whose derivation path is the entry's
    label (the applications themselves are under their own contracts in c_bip85: modular)"""
    target = "btc_hd_wallet.paper_wallet.PaperWallet.bip85_data"
    props = ("C12", "C06")

    def run(self, ctx, f, args, kwargs, I):
        saved = dict(E.SUMMARIES)
        pre = "btc_hd_wallet.bip85.BIP85DeterministicEntropy."
        try:
            E.SUMMARIES[pre + "bip39_mnemonic"] = _tag_summary("bip39_mnemonic", ["word_count", "index"])
            E.SUMMARIES[pre + "wif"] = _tag_summary("wif", ["index"])
            E.SUMMARIES[pre + "xprv"] = _tag_summary("xprv", ["index"])
            return ctx.call_value(f, args, kwargs)
        finally:
            E.SUMMARIES.clear()
            E.SUMMARIES.update(saved)

    def inputs(self, B):
        if B.concrete:
            raise Undecided("bip85_data over tagged applications has no concrete replay (the applications have their own contracts)")
        w, wn = sym_wallet(B, private=True)
        return [w], {}, NS(w=wn)

    def post(self, c, I, out):
        yield "ensures.returns", out.returned
        if not out.returned:
            return
        d = c.deref(out.value).d
        bip85 = c.deref(I.w.ref).fields.get("bip85")
        want = {}
        for wc in (24, 18, 12):
            want[f"m/83696968'/39'/0'/{wc}'/0'"] = ("bip39_mnemonic", dict(word_count=wc, index=0))
        for i in range(3):
            want[f"m/83696968'/2'/{i}'"] = ("wif", dict(index=i))
        for i in range(3):
            want[f"m/83696968'/32'/{i}'"] = ("xprv", dict(index=i))
        keys = [simplify_native(k) if not isinstance(k, SStr) else k.native() for k in d]
        yield "ensures.labels_exactly", sorted(keys) == sorted(want) and len(keys) == len(set(keys))        # (order of a JSON object is not content)
        for k, v in d.items():
            ks = k.native() if isinstance(k, SStr) else k
            w_ = want.get(ks)
            ok = w_ is not None and isinstance(v, Tagged) and v.tag == w_[0] and v.kw.get("self_") == bip85 \
                and {a: simplify_native(b) for a, b in v.kw.items() if a != "self_"} == w_[1]
            yield f"ensures.entry_is_the_application_at_its_label[{ks}]", ok


@contract
class ExportWasabi(_OutputChannel):
    """C06/C20: export_wasabi writes exactly wasabi_json(indent) to exactly the requested path, once, and nothing
    to standard output"""
    target = "btc_hd_wallet.paper_wallet.PaperWallet.export_wasabi"
    props = ("C06", "C20")
    with_path = True

    def run(self, ctx, f, args, kwargs, I):
        saved = dict(E.SUMMARIES)
        try:
            E.SUMMARIES["btc_hd_wallet.paper_wallet.PaperWallet.wasabi_json"] = _tag_summary("wasabi_json", ["indent"])
            return super().run(ctx, f, args, kwargs, I)
        finally:
            E.SUMMARIES.clear()
            E.SUMMARIES.update(saved)

    def inputs(self, B):
        a, kw, I = super().inputs(B)
        kw.pop("data", None)
        return a, kw, I

    def post(self, c, I, out):
        eff = c.effects
        if I.export_fails:
            yield "raises.write_failure_is_propagated", out.raised_a(OSError)
            yield "ensures.write_failure_emits_nothing_on_stdout", not emitted(eff)
            return
        yield "ensures.returns_none", out.returned and out.value is None
        ok = [e[0] for e in eff if e[0] != "stderr.write"] == ["export_to_file"] and not emitted(eff)
        yield "ensures.one_export_and_nothing_on_stdout", ok
        if ok:
            eff = [e for e in eff if e[0] == "export_to_file"]
            kw = dict(zip(["file_path", "contents"], [a for a in eff[0][1] if not (isinstance(a, Ref) and a == I.w.ref)]))
            kw.update(eff[0][2])
            v = kw.get("contents")
            yield "ensures.path_is_the_requested_path", kw.get("file_path") is I.path and set(kw) == {"file_path", "contents"}
            yield "ensures.contents_is_wasabi_json", isinstance(v, Tagged) and v.tag == "wasabi_json" and v.kw.get("self_") == I.w.ref \
                and not (set(v.kw) - {"self_", "indent"})         # (the indent width is layout, not content)
