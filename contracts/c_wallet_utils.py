"""Sidecar contracts for btc_hd_wallet/wallet_utils.py (C07 Version, C17 Bip32Path)."""
from . import summaries as _SUM_ALWAYS      # noqa: F401,E402  (summaries installed independent of import order)
import z3
from pyvc import prims as U
from pyvc import logic as L
from pyvc.logic import (Rope, as_rope, is_sym, land, lor, lnot, implies, iff, eq, ite, seg, SymVal)
from pyvc.engine import Ref, HObj, HList, SStr, Dec, OStr, Undecided, PyRaise, mk_str
from pyvc.verify import NS
from .common import repo, HARD

CONTRACTS = []
CANARIES = []


def contract(cls):
    CONTRACTS.append(cls())
    return cls


def canary(cls):
    CANARIES.append(cls())
    return cls


# SLIP-132 table (written from the SLIP, not from the code): version -> (private?, bip index 0/1/2, testnet?)
SLIP132 = {
    0x0488B21E: (False, 0, False), 0x0488ADE4: (True, 0, False),     # xpub / xprv
    0x049d7cb2: (False, 1, False), 0x049d7878: (True, 1, False),     # ypub / yprv
    0x04b24746: (False, 2, False), 0x04b2430c: (True, 2, False),     # zpub / zprv
    0x043587CF: (False, 0, True), 0x04358394: (True, 0, True),       # tpub / tprv
    0x044a5262: (False, 1, True), 0x044a4e28: (True, 1, True),       # upub / uprv
    0x045f1cf6: (False, 2, True), 0x045f18bc: (True, 2, True),       # vpub / vprv
}


def slip132_version(private, bip, testnet):
    """(private?, bip 0/1/2, testnet) -> version integer, as a term"""
    r = 0
    for v, (p, b, t) in SLIP132.items():
        r = ite(land(eq(private, p), eq(bip, b), eq(testnet, t)), v, r)
    return r


@contract
class VersionParse:
    """C07: the version prefix alone determines (key type, network, BIP flavour); unknown versions are refused"""
    target = "btc_hd_wallet.wallet_utils.Version.parse"
    props = ("C07", "C16", "C14")

    def inputs(self, B):
        R = repo()
        v = B.int("version_int")
        return [R.wu.Version, v], {}, NS(v=v)

    def post(self, c, I, out):
        R = repo()
        known = lor(*[I.v == k for k in SLIP132])
        yield "raises.iff_unknown_version", iff(out.raised, lnot(known))
        if out.returned:
            o = c.deref(out.value)
            kt, bt, tn = o.fields.get("key_type"), o.fields.get("bip_type"), o.fields.get("testnet")
            for k, (p, b, t) in SLIP132.items():
                yield f"ensures.triple[{k:08x}]", implies(I.v == k, land(
                    kt is (R.wu.Key.PRV if p else R.wu.Key.PUB),
                    bt is [R.wu.Bip.BIP44, R.wu.Bip.BIP49, R.wu.Bip.BIP84][b],
                    eq(tn, t)))


@contract
class VersionParseNonInt:
    target = "btc_hd_wallet.wallet_utils.Version.parse"
    props = ("C07",)

    def inputs(self, B):
        R = repo()
        v = [None, "0488B21E", b"\x04\x88\xb2\x1e", 76067358.0][B.case("kind", 4)]
        return [R.wu.Version, v], {}, NS(v=v)

    def post(self, c, I, out):
        yield "raises.non_integer", out.raised


@contract
class VersionInt:
    """C07/C16: int(Version(key type, bip, network)) is the SLIP-132 constant"""
    target = "btc_hd_wallet.wallet_utils.Version.__int__"
    props = ("C07", "C16", "C06")

    def inputs(self, B):
        R = repo()
        p = B.case("private", 2)
        b = B.case("bip", 3)
        t = B.bool("testnet")
        ref = B.obj(R.wu.Version, key_type=R.wu.Key.PRV if p else R.wu.Key.PUB,
                    bip_type=[R.wu.Bip.BIP44, R.wu.Bip.BIP49, R.wu.Bip.BIP84][b], testnet=t)
        return [ref], {}, NS(p=bool(p), b=b, t=t)

    def post(self, c, I, out):
        yield "ensures.returns", out.returned
        if out.returned:
            yield "ensures.slip132_constant", eq(out.value, slip132_version(I.p, I.b, I.t))


@contract
class VersionInit:
    target = "btc_hd_wallet.wallet_utils.Version.__init__"
    props = ("C07", "C06")

    def run(self, ctx, f, args, kwargs, I):
        return ctx.call_value(repo().wu.Version, args, kwargs)

    def run_real(self, f, rargs, rkw, I):
        return repo().wu.Version(*rargs, **rkw)

    def inputs(self, B):
        p = B.case("key_type", 2)
        b = B.case("bip", 3)
        t = B.bool("testnet")
        return [], dict(key_type=p, bip=b, testnet=t), NS(p=p, b=b, t=t)

    def post(self, c, I, out):
        R = repo()
        yield "ensures.returns", out.returned
        if out.returned:
            o = c.deref(out.value)
            # Key.PRV = 0, Key.PUB = 1; Bip.BIP44/49/84 = 0/1/2
            yield "ensures.key_type", o.fields.get("key_type") is (R.wu.Key.PRV if I.p == 0 else R.wu.Key.PUB)
            yield "ensures.bip_type", o.fields.get("bip_type") is [R.wu.Bip.BIP44, R.wu.Bip.BIP49, R.wu.Bip.BIP84][I.b]
            yield "ensures.testnet", eq(o.fields.get("testnet"), I.t)


# =========================================================================== Bip32Path (C17)
def fmt_component(n, hardened, marker="'"):
    """text of a component whose hardened-ness is known concretely (case split by the builder)"""
    if hardened:
        return [Dec(n - HARD), marker]
    return [Dec(n)]


def sym_index_list(B, length, tag="x", pattern=None):
    """list of `length` indexes in [0, 2^32), each with a concrete hardened flag (case split)"""
    xs = []
    for i in range(length):
        h = bool(B.case(f"{tag}{i}_hardened", 2)) if pattern is None else bool(pattern[i])
        n = B.int(f"{tag}{i}", HARD, 2 ** 32) if h else B.int(f"{tag}{i}", 0, HARD)
        xs.append((n, h))
    return xs


def fmt_path(root, xs, marker="'"):
    parts = [root]
    for n, h in xs:
        parts.append("/")
        parts.extend(fmt_component(n, h, marker))
    return mk_str(parts)


def path_fields(c, ref):
    o = c.deref(ref)
    return [o.fields.get(k) for k in ("purpose", "coin_type", "account", "chain", "addr_index")]


@contract
class PathParseFormatted:
    """C17: parse(format(xs)) == xs for 0..5 levels, both markers, both roots"""
    target = "btc_hd_wallet.wallet_utils.Bip32Path.parse"
    props = ("C17", "C12", "C06")

    def inputs(self, B):
        R = repo()
        n = B.case("levels", 6)
        root = ["m", "M"][B.case("root", 2)]
        marker = ["'", "h"][B.case("marker", 2)]
        xs = sym_index_list(B, n)
        s = fmt_path(root, xs, marker)
        return [R.wu.Bip32Path, s], {}, NS(xs=xs, root=root, n=n)

    def post(self, c, I, out):
        yield "ensures.returns", out.returned
        if out.returned:
            f = path_fields(c, out.value)
            for i in range(5):
                if i < I.n:
                    yield f"ensures.component[{i}]", eq(f[i], I.xs[i][0])
                else:
                    yield f"ensures.component[{i}]_absent", f[i] is None
            yield "ensures.private_flag", c.deref(out.value).fields.get("private") is (I.root == "m")


@contract
class PathRepr:
    """C17: str(path) is the canonical text of its components (so format then parse is the identity)"""
    target = "btc_hd_wallet.wallet_utils.Bip32Path.__repr__"
    props = ("C17", "C06")

    def inputs(self, B):
        R = repo()
        n = B.case("levels", 6)
        private = bool(B.case("private", 2))
        xs = sym_index_list(B, n)
        vals = [x[0] for x in xs] + [None] * (5 - n)
        ref = B.obj(R.wu.Bip32Path, purpose=vals[0], coin_type=vals[1], account=vals[2], chain=vals[3],
                    addr_index=vals[4], private=private)
        return [ref], {}, NS(xs=xs, private=private)

    def post(self, c, I, out):
        yield "ensures.returns", out.returned
        if out.returned:
            yield "ensures.canonical_text", eq(out.value, fmt_path("m" if I.private else "M", I.xs))


@contract
class PathToList:
    target = "btc_hd_wallet.wallet_utils.Bip32Path.to_list"
    props = ("C17", "C06", "C12")

    def inputs(self, B):
        R = repo()
        n = B.case("levels", 6)
        xs = [B.int(f"x{i}") for i in range(n)]
        vals = xs + [None] * (5 - n)
        ref = B.obj(R.wu.Bip32Path, purpose=vals[0], coin_type=vals[1], account=vals[2], chain=vals[3],
                    addr_index=vals[4], private=True)
        return [ref], {}, NS(xs=xs)

    def post(self, c, I, out):
        yield "ensures.returns", out.returned
        if out.returned:
            o = c.deref(out.value)
            yield "ensures.components_in_order", isinstance(o, HList) and o.base is None and len(o.items) == len(I.xs) \
                and land(*[eq(a, b) for a, b in zip(o.items, I.xs)])


@contract
class PathInit:
    """C17: a gap (a level given after a missing one) or a non-integer level is refused"""
    target = "btc_hd_wallet.wallet_utils.Bip32Path.__init__"
    props = ("C17",)

    def run(self, ctx, f, args, kwargs, I):
        return ctx.call_value(repo().wu.Bip32Path, args, kwargs)

    def run_real(self, f, rargs, rkw, I):
        return repo().wu.Bip32Path(*rargs, **rkw)

    def inputs(self, B):
        mask = B.case("present_mask", 32)
        names = ["purpose", "coin_type", "account", "chain", "addr_index"]
        kw = {}
        for i, nme in enumerate(names):
            kw[nme] = B.int(nme) if (mask >> i) & 1 else None
        return [], kw, NS(mask=mask, kw=kw, names=names)

    def post(self, c, I, out):
        present = [(I.mask >> i) & 1 for i in range(5)]
        gap = any(present[i] and not all(present[:i]) for i in range(5))
        yield "raises.iff_gap", out.raised == gap
        if out.returned:
            o = c.deref(out.value)
            for nme in I.names:
                yield f"ensures.field[{nme}]", eq(o.fields.get(nme), I.kw[nme]) if I.kw[nme] is not None else o.fields.get(nme) is None


class Tok(SymVal):
    """an arbitrary '/'-free path token, abstracted (DESIGN §2.2 DecTok): emptiness, class of its last
    character, and the (partial) results of Python's int() on the whole token and on token[:-1]."""
    CORPUS = ["", "0", "1", "44'", "0h", "5H", "7'h", "2147483648", "12x", "3 ", "2147483647", "2147483648", "4294967295", "4294967296", "-1", "-1'",
              "2147483647'", "2147483648'", "2147483648h", "x", "'", "h", "1x", "x'", " 5", "+5", "1_0", "0x10", "''",
              "5'", "٣", "1.0", "1e3", "-0'", "00'", "99999999999'"]

    def __init__(self, B, name):
        self.name = name
        if B.concrete:
            self._concrete(B, name)
            return
        self.empty = B.bool(name + "_empty")
        self.last = B.int(name + "_last", 0, 3)          # 0: "'", 1: "h", 2: any other character
        self.lastcode = B.int(name + "_lastcode", 0, 0x110000)   # code of the last character (if not empty)
        B.assume(land((self.last == 0) == (self.lastcode == 39), (self.last == 1) == (self.lastcode == 104)))
        self.ok = B.bool(name + "_int_ok")               # int(token) succeeds
        self.val = B.int(name + "_int")
        self.bok = B.bool(name + "_body_int_ok")         # int(token[:-1]) succeeds
        self.bval = B.int(name + "_body_int")
        # int() never accepts the empty string nor a string ending in ' or h (nor in any other ASCII letter)
        B.assume(implies(self.empty, lnot(self.ok)))
        B.assume(implies(self.last != 2, lnot(self.ok)))
        B.assume(implies(lor(land(self.lastcode >= 65, self.lastcode <= 90), land(self.lastcode >= 97, self.lastcode <= 122)), lnot(self.ok)))
        self._eqs = {}
        self._B = B

    def _concrete(self, B, name):
        """pick a REAL token text (from the model's abstract attributes, or from the corpus when
        sampling) and recompute the abstraction with Python's own int()"""
        if hasattr(B, "rng") and name + "_text" not in B.vals:
            r = B.rng.random()
            if r < 0.6:
                txt = B.rng.choice(self.CORPUS)
            elif r < 0.8:
                txt = str(B.rng.randrange(0, 2 ** 31)) + B.rng.choice(["", "'", "h"])
            else:
                txt = str(B.rng.randrange(-5, 2 ** 33)) + B.rng.choice(["", "'", "h"])
            B.vals[name + "_text"] = txt
        elif name + "_text" in B.vals:
            txt = B.vals[name + "_text"]
        else:
            v = B.vals
            if v.get(name + "_empty"):
                txt = ""
            else:
                last = int(v.get(name + "_last") or 0) % 3
                lc = int(v.get(name + "_lastcode") or 0)
                if last == 2 and not v.get(name + "_int_ok") and 33 <= lc <= 126 and chr(lc) not in "'h":
                    body = str(int(v.get(name + "_body_int") or 0)) if v.get(name + "_body_int_ok") else "zz"
                    txt = body + chr(lc)
                elif last == 2:
                    txt = str(int(v.get(name + "_int") or 0)) if v.get(name + "_int_ok") else "z9z"
                else:
                    body = str(int(v.get(name + "_body_int") or 0)) if v.get(name + "_body_int_ok") else "zz"
                    txt = body + ("'" if last == 0 else "h")
            B.vals[name + "_text"] = txt
        self.text = txt
        self.empty = txt == ""
        self.last = 2 if not txt else (0 if txt[-1] == "'" else 1 if txt[-1] == "h" else 2)
        self.lastcode = ord(txt[-1]) if txt else 0

        def tryint(x):
            try:
                return True, int(x)
            except ValueError:
                return False, 0
        self.ok, self.val = tryint(txt)
        self.bok, self.bval = tryint(txt[:-1])

    def materialize(self):
        return self.text

    def sym_eq(self, other):
        """token == literal: a fresh fact constrained by everything the abstraction knows about the literal"""
        if isinstance(other, Tok):
            return other is self if other is self else _undecided("equality of two tokens")
        if not isinstance(other, str):
            return False
        if hasattr(self, "text"):
            return self.text == other
        if other not in self._eqs:
            e = z3.Bool(f"{self.name}_is_{other.encode().hex() or 'empty'}")

            def tryint(x):
                try:
                    return True, int(x)
                except ValueError:
                    return False, 0
            ok, v = tryint(other)
            bok, bv_ = tryint(other[:-1])
            facts = [iff(self.empty, other == "") if True else True, iff(self.ok, ok), iff(self.bok, bok)]
            if other:
                facts.append(self.lastcode == ord(other[-1]))
            if ok:
                facts.append(self.val == v)
            if bok:
                facts.append(self.bval == bv_)
            self._B.ctx.sink.add(implies(e, land(*facts)))
            self._eqs[other] = e
        return self._eqs[other]

    def sym_truthy(self, ctx):
        return lnot(self.empty)

    def sym_subscript(self, ctx, idx):
        if isinstance(idx, slice):
            if idx.start is None and idx.stop == -1:
                return TokBody(self)
            raise Undecided("token slice")
        if idx == -1:
            if ctx.branch(self.empty):
                raise PyRaise(IndexError)
            return TokLast(self)
        raise Undecided("token index")

    def sym_int(self, ctx, *a):
        if a:
            raise Undecided("int(token, base)")
        if not ctx.branch(self.ok):
            raise PyRaise(ValueError)
        return self.val


def _undecided(msg):
    raise Undecided(msg)


class TokBody(SymVal):
    def __init__(self, tok):
        self.tok = tok

    def sym_int(self, ctx, *a):
        if not ctx.branch(self.tok.bok):
            raise PyRaise(ValueError)
        return self.tok.bval


class TokLast(SymVal):
    def __init__(self, tok):
        self.tok = tok

    def sym_in(self, ctx, container):
        r = []
        for ch in container:
            if ch == "'":
                r.append(self.tok.last == 0)
            elif ch == "h":
                r.append(self.tok.last == 1)
            elif isinstance(ch, str) and len(ch) == 1:
                r.append(self.tok.lastcode == ord(ch))
            else:
                raise Undecided("TokLast membership")
        return lor(*r)


class SPath(SymVal):
    """an arbitrary string with exactly k '/' characters: root token + k abstract tokens"""
    def __init__(self, root, toks):
        self.root, self.toks = root, toks

    def materialize(self):
        return "/".join([self.root] + [t.materialize() for t in self.toks])

    def sym_getattr(self, ctx, name):
        if name == "split":
            def split(sep):
                if sep != "/":
                    raise Undecided("split on another separator")
                return ctx.new_list([self.root] + list(self.toks))
            return split
        raise Undecided("SPath." + name)


class PathParseArbitrary:
    """C17 rejection clauses on arbitrary text: wrong root, non-decimal / empty / out-of-range components
    are refused or denote exactly their decimal value; paths deeper than five levels (known finding
    KF-C17-1) must be refused or honoured in full"""
    target = "btc_hd_wallet.wallet_utils.Bip32Path.parse"
    props = ("C17",)

    K = 0
    max_paths = 6000

    def inputs(self, B):
        R = repo()
        k = self.K
        root = ["m", "M", "n", "", "m "][B.case("root", 5)]
        toks = [Tok(B, f"t{i}") for i in range(k)]
        return [R.wu.Bip32Path, SPath(root, toks)], {}, NS(k=k, root=root, toks=toks)

    def post(self, c, I, out):
        k, toks = I.k, I.toks
        if I.root not in ("m", "M"):
            yield "raises.wrong_root", out.raised
            return
        if k > 5:
            # the property: deeper paths are honoured in full or rejected; a Bip32Path has five levels,
            # so the only conforming behaviour of parse() is to raise
            yield "raises.more_than_five_levels", out.raised
            return
        # value denoted by a token, if any
        def marked(t):
            return t.last != 2

        def denotes_ok(t):
            return land(lnot(t.empty), ite(marked(t), land(t.bok, t.bval >= 0, t.bval < HARD), t.ok))

        def value(t):
            return ite(marked(t), t.bval + HARD, t.val)
        # an empty token is "absent"; a present token after an absent one is a gap
        present = [lnot(t.empty) for t in toks]
        gap = lor(*[land(present[i], lnot(land(*present[:i]))) for i in range(k)]) if k else False
        bad = lor(gap, *[land(present[i], lnot(denotes_ok(toks[i]))) for i in range(k)])
        yield "raises.malformed_component_or_gap", implies(bad, out.raised)
        yield "raises.only_if_malformed", implies(out.raised, bad)
        if out.returned:
            f = path_fields(c, out.value)
            for i in range(5):
                if i < k:
                    yield f"ensures.component[{i}]", ite(present[i], eq(f[i], value(toks[i])) if f[i] is not None else False,
                                                         f[i] is None)
                else:
                    yield f"ensures.component[{i}]_absent", f[i] is None


for _k in range(8):
    _c = type(f"PathParseArbitraryK{_k}", (PathParseArbitrary,), dict(K=_k))
    if _k >= 6:
        _c.kf_clauses = ("raises.more_than_five_levels",)
    CONTRACTS.append(_c())


@contract
class ConvertHardened:
    target = "btc_hd_wallet.wallet_utils.Bip32Path.convert_hardened"
    props = ("C17", "C12")

    def inputs(self, B):
        t = Tok(B, "t")
        B.assume(lnot(t.empty))
        return [t], {}, NS(t=t)

    def post(self, c, I, out):
        t = I.t
        ok = ite(t.last != 2, land(t.bok, t.bval >= 0, t.bval < HARD), t.ok)
        yield "raises.iff_not_a_number_or_marked_out_of_range", iff(out.raised, lnot(ok))
        if out.returned:
            yield "ensures.value", eq(out.value, ite(t.last != 2, t.bval + HARD, t.val))


class CanaryVersionSwapped(VersionParse):
    """must FAIL: spec table with ypub / zpub swapped"""
    props = ("C07", "C16")

    def post(self, c, I, out):
        R = repo()
        if out.returned:
            o = c.deref(out.value)
            yield "canary.ypub_is_bip84", implies(I.v == 0x049d7cb2, o.fields.get("bip_type") is R.wu.Bip.BIP84)


class CanaryHardenedBound(ConvertHardened):
    """must FAIL: spec accepting a marked 2^31"""
    props = ("C17", "C12")

    def post(self, c, I, out):
        t = I.t
        ok = ite(t.last != 2, land(t.bok, t.bval >= 0, t.bval <= HARD), t.ok)
        yield "canary.marked_range_inclusive", iff(out.raised, lnot(ok))


CANARIES += [CanaryVersionSwapped(), CanaryHardenedBound()]
