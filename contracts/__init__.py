"""Sidecar contracts.  The call summaries are installed whenever any contract module is imported, so that
behaviour never depends on import order."""
