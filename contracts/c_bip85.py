"""Sidecar contracts for btc_hd_wallet/bip85.py (C12, C18) and BaseWallet.by_path (C17, C13)."""
from . import summaries as _SUM_ALWAYS      # noqa: F401,E402  (summaries installed independent of import order)
import z3
from pyvc import prims as U
from pyvc import logic as L
from pyvc import engine as E
from pyvc.logic import (Rope, as_rope, is_sym, land, lor, lnot, implies, iff, eq, ite, seg)
from pyvc.engine import Ref, HObj, HList, SStr, Dec, OStr, Undecided, PyRaise, mk_str, PStr
from pyvc.verify import NS
from .common import (is_obj, repo, HARD, N, sym_prv_node, sym_pub_node, serP, spec_prv_ckd_terms, spec_pub_ckd_terms)
from . import summaries as SUM
from .c_wallet_utils import sym_index_list, fmt_path
from .c_base_wallet import sym_wallet

CONTRACTS = []
CANARIES = []


def contract(cls):
    CONTRACTS.append(cls())
    return cls


def canary(cls):
    CANARIES.append(cls())
    return cls


def spec_derive_prv(k, cc, path):
    """iterated BIP32 CKDpriv -> (some level invalid?, final scalar, final chain code, list of per-level (k, cc))"""
    bad = []
    levels = []
    for idx in path:
        IL, IR, ki = spec_prv_ckd_terms(k, cc, idx)
        bad.append(lor(IL >= N, ki == 0))
        k, cc = ki, IR
        levels.append((k, cc))
    return lor(*bad) if bad else False, k, cc, levels


def spec_derive_pub(key, pt, cc, path):
    bad = []
    levels = []
    for idx in path:
        IL, IR, Ki = spec_pub_ckd_terms(key, pt, cc, idx)
        bad.append(lor(idx >= HARD, IL >= N, IL == 0, Ki.sym_eq(U.inf())))
        key, pt, cc = serP(Ki), Ki, IR
        levels.append((key, cc))
    return lor(*bad) if bad else False, key, pt, cc, levels


def bip85_obj(B):
    R = repo()
    mref, mn = sym_prv_node(B, "master", with_parent=False)
    ref = B.obj(R.bip85.BIP85DeterministicEntropy, master_node=mref, testnet=mn.testnet)
    return ref, mn


def bip85_entropy(mn, path):
    """BIP85: HMAC-SHA512(key="bip-entropy-from-k", msg=ser256(k at the fully hardened path))"""
    bad, k, cc, _ = spec_derive_prv(mn.k, mn.cc, path)
    return bad, U.hmac512(b"bip-entropy-from-k", seg(k, 32))


def key_invalid(rope32):
    v = as_rope(rope32).be()
    return lor(v == 0, v >= N)


def idx_ok(index):
    return land(index >= 0, index < HARD)


class _Bip85Frame:
    def modifies(self, c, I):
        return {(I.mn.children.oid, "items")}


WORDS_TO_BYTES = {12: 16, 15: 20, 18: 24, 21: 28, 24: 32}      # BIP85 / BIP39 table


@contract
class Bip85Wif(_Bip85Frame):
    """C12/C18: WIF application m/83696968'/2'/index' -> compressed mainnet WIF of entropy[:32]"""
    target = "btc_hd_wallet.bip85.BIP85DeterministicEntropy.wif"
    props = ("C12", "C18")

    def inputs(self, B):
        ref, mn = bip85_obj(B)
        index = B.int("index")
        return [ref], dict(index=index), NS(mn=mn, index=index)

    def post(self, c, I, out):
        ok = idx_ok(I.index)
        bad, ent = bip85_entropy(I.mn, [83696968 + HARD, 2 + HARD, I.index + HARD])
        sec = ent.slice(0, 32)
        yield "raises.index_out_of_range", implies(lnot(ok), out.raised)
        yield "raises.invalid_secret", implies(land(ok, key_invalid(sec)), out.raised)
        yield "raises.only_if", implies(out.raised, lor(lnot(ok), bad, key_invalid(sec)))
        if out.returned:
            yield "ensures.wif_of_first_32_bytes", eq(out.value, SUM.b58chk(Rope.of(b"\x80") + sec + Rope.of(b"\x01")))


@contract
class Bip85Xprv(_Bip85Frame):
    """C12/C18: XPRV application m/83696968'/32'/index': chain code = entropy[:32], key = entropy[32:]"""
    target = "btc_hd_wallet.bip85.BIP85DeterministicEntropy.xprv"
    props = ("C12", "C18")

    def inputs(self, B):
        ref, mn = bip85_obj(B)
        index = B.int("index")
        return [ref], dict(index=index), NS(mn=mn, index=index)

    def post(self, c, I, out):
        ok = idx_ok(I.index)
        bad, ent = bip85_entropy(I.mn, [83696968 + HARD, 32 + HARD, I.index + HARD])
        cc, key = ent.slice(0, 32), ent.slice(32, 64)
        yield "raises.index_out_of_range", implies(lnot(ok), out.raised)
        yield "raises.invalid_secret", implies(land(ok, key_invalid(key)), out.raised)
        yield "raises.only_if", implies(out.raised, lor(lnot(ok), bad, key_invalid(key)))
        if out.returned:
            payload = Rope.of(bytes.fromhex("0488ade4") + b"\x00" + bytes(4) + bytes(4)) + cc + Rope.of(b"\x00") + key
            yield "ensures.xprv_layout", eq(out.value, SUM.b58chk(payload))


class Bip85Hex(_Bip85Frame):
    """C12: HEX application m/83696968'/128169'/n'/index' -> first n bytes, 16 <= n <= 64"""
    target = "btc_hd_wallet.bip85.BIP85DeterministicEntropy.hex"
    props = ("C12",)
    max_paths = 3000

    def inputs(self, B):
        ref, mn = bip85_obj(B)
        index = B.int("index")
        ns = self.values
        n = ns[B.case("num_bytes", len(ns))]
        return [ref], dict(num_bytes=n, index=index), NS(mn=mn, index=index, n=n)

    def post(self, c, I, out):
        ok = land(idx_ok(I.index), 16 <= I.n <= 64)
        yield "raises.out_of_range", implies(lnot(ok), out.raised)
        if not 16 <= I.n <= 64:
            return
        bad, ent = bip85_entropy(I.mn, [83696968 + HARD, 128169 + HARD, I.n + HARD, I.index + HARD])
        yield "raises.only_if", implies(out.raised, lor(lnot(ok), bad))
        if out.returned:
            yield "ensures.first_n_bytes", eq(out.value, E.HexStr(ent.slice(0, I.n)))


class Bip85Pwd(_Bip85Frame):
    """C12: PWD BASE64 application m/83696968'/707764'/L'/index' -> first L characters of the Base64
    of all 64 bytes, 20 <= L <= 86"""
    target = "btc_hd_wallet.bip85.BIP85DeterministicEntropy.pwd"
    props = ("C12",)
    max_paths = 4000

    def inputs(self, B):
        ref, mn = bip85_obj(B)
        index = B.int("index")
        ls = self.values
        n = ls[B.case("pwd_len", len(ls))]
        return [ref], dict(pwd_len=n, index=index), NS(mn=mn, index=index, n=n)

    def post(self, c, I, out):
        ok = land(idx_ok(I.index), 20 <= I.n <= 86)
        yield "raises.out_of_range", implies(lnot(ok), out.raised)
        if not 20 <= I.n <= 86:
            return
        bad, ent = bip85_entropy(I.mn, [83696968 + HARD, 707764 + HARD, I.n + HARD, I.index + HARD])
        yield "raises.only_if", implies(out.raised, lor(lnot(ok), bad))
        if out.returned:
            f = z3.Function("b64prefix_64", z3.IntSort(), z3.IntSort(), PStr)
            yield "ensures.first_L_base64_chars_of_64_bytes", eq(out.value, SStr([OStr(f(L.toint(ent.be()), z3.IntVal(I.n)), "b64")]))


def _chunks(vals, k):
    return [vals[i:i + k] for i in range(0, len(vals), k)]


for _i, _ch in enumerate(_chunks(list(range(16, 65)) + [15, 65, 0, -1, 128], 6)):
    CONTRACTS.append(type(f"Bip85Hex_{_i}", (Bip85Hex,), dict(values=_ch))())
for _i, _ch in enumerate(_chunks(list(range(20, 87)) + [19, 87, 0, -1], 6)):
    CONTRACTS.append(type(f"Bip85Pwd_{_i}", (Bip85Pwd,), dict(values=_ch))())


class Bip85Mnemonic(_Bip85Frame):
    """C12: BIP39 application m/83696968'/39'/0'/words'/index' -> mnemonic of the first 16/20/24/28/32 bytes"""
    target = "btc_hd_wallet.bip85.BIP85DeterministicEntropy.bip39_mnemonic"
    props = ("C12",)

    def inputs(self, B):
        ref, mn = bip85_obj(B)
        index = B.int("index")
        ws = self.values
        w = ws[B.case("word_count", len(ws))]
        return [ref], dict(word_count=w, index=index), NS(mn=mn, index=index, w=w)

    def post(self, c, I, out):
        okw = I.w in WORDS_TO_BYTES
        ok = land(idx_ok(I.index), okw)
        yield "raises.out_of_range", implies(lnot(ok), out.raised)
        if not okw:
            return
        bad, ent = bip85_entropy(I.mn, [83696968 + HARD, 39 + HARD, 0 + HARD, I.w + HARD, I.index + HARD])
        yield "raises.only_if", implies(out.raised, lor(lnot(ok), bad))
        if out.returned:
            yield "ensures.mnemonic_of_truncated_entropy", eq(out.value, SUM.mnemonic_term(ent.slice(0, WORDS_TO_BYTES[I.w])))


for _i, _ch in enumerate([[12], [15], [18], [21], [24], [0, 11, 13, 25, 27, -12]]):
    CONTRACTS.append(type(f"Bip85Mnemonic_{_i}", (Bip85Mnemonic,), dict(values=_ch))())


@contract
class Bip85CorrectKey:
    target = "btc_hd_wallet.bip85.BIP85DeterministicEntropy.correct_key"
    props = ("C18", "C12")

    def inputs(self, B):
        kb = B.bytes("key_bytes", 32)
        return [kb], {}, NS(kb=kb)

    def post(self, c, I, out):
        yield "raises.iff_zero_or_ge_n", iff(out.raised, key_invalid(I.kb))


@contract
class Bip85ByteCount:
    target = "btc_hd_wallet.bip85.BIP85DeterministicEntropy.byte_count_from_word_count"
    props = ("C12",)

    def inputs(self, B):
        w = B.int("word_count")
        return [w], {}, NS(w=w)

    def post(self, c, I, out):
        known = lor(*[I.w == k for k in WORDS_TO_BYTES])
        yield "raises.iff_unknown_word_count", iff(out.raised, lnot(known))
        if out.returned:
            for k, v in WORDS_TO_BYTES.items():
                yield f"ensures.bytes[{k}]", implies(I.w == k, eq(out.value, v))


# ------------------------------------------------------------------------------------------ by_path
def node_chain_clauses(c, node_ref, root_ref, levels, path, private, testnet, root_depth):
    """the returned node and its ancestors carry the spec values level by level"""
    cur = node_ref
    for i in range(len(levels) - 1, -1, -1):
        ok = isinstance(cur, Ref) and is_obj(c, cur)
        yield f"ensures.level[{i}].is_node", ok
        if not ok:
            return
        o = c.deref(cur)
        key, cc = levels[i]
        yield f"ensures.level[{i}].key", eq(o.fields.get("key"), seg(key, 32) if private else key)
        yield f"ensures.level[{i}].chain_code", eq(o.fields.get("chain_code"), cc)
        yield f"ensures.level[{i}].index", eq(o.fields.get("index"), path[i])
        yield f"ensures.level[{i}].depth", eq(o.fields.get("depth"), root_depth + i + 1)
        yield f"ensures.level[{i}].testnet", eq(o.fields.get("testnet"), testnet)
        cur = o.fields.get("parent")
    yield "ensures.chain_ends_at_root", cur == root_ref


class _ByPath:
    """C17/C13/C14: by_path(format(xs)) == iterated child derivation over xs from the master node"""
    target = "btc_hd_wallet.base_wallet.BaseWallet.by_path"
    props = ("C17", "C13", "C14", "C01", "C02")
    private = True
    levels = 0

    def inputs(self, B):
        w, wn = sym_wallet(B, private=self.private)
        pat = self.patterns[B.case("pattern", len(self.patterns))]
        xs = sym_index_list(B, self.levels, pattern=pat)
        s = fmt_path("m" if self.private else "M", xs, "'")
        return [w], dict(path=s), NS(w=wn, xs=xs)

    def modifies(self, c, I):
        return {(I.w.master.children.oid, "items")}

    def post(self, c, I, out):
        m = I.w.master
        path = [x[0] for x in I.xs]
        if self.private:
            bad, k, cc, levels = spec_derive_prv(m.k, m.cc, path)
        else:
            bad, key, pt, cc, levels = spec_derive_pub(m.key, m.pt, m.cc, path)
        yield "raises.iff_some_level_invalid_or_refused", iff(out.raised, bad)
        if out.returned:
            if not path:
                yield "ensures.empty_path_is_master", out.value == m.ref
            else:
                yield from node_chain_clauses(c, out.value, m.ref, levels, path, self.private, m.testnet, m.depth)


import itertools    # noqa: E402

for _priv in (True, False):
    for _n in range(6 if not _priv else 4):
        _pats = list(itertools.product([0, 1], repeat=_n))
        _k = 4 if _priv else 32
        for _j, _ch in enumerate(_chunks(_pats, _k)):
            _c = type(f"ByPath{'Prv' if _priv else 'Pub'}{_n}_{_j}", (_ByPath,), dict(private=_priv, levels=_n, patterns=_ch))
            CONTRACTS.append(_c())


# ------------------------------------------------------------------------------------------ derive_path / generate_children
class _DerivePath:
    """C01/C02/C13: derive_path(xs) is the left fold of child derivation over xs (lengths 0..6 unrolled with
    arbitrary symbolic indexes; arbitrary lengths by the loop-uniformity obligation of lemmas/l_loops.py)"""
    target = "btc_hd_wallet.bip32.PubKeyNode.derive_path"
    props = ("C01", "C02", "C13", "C17")
    private = True
    levels = 0

    def inputs(self, B):
        mk = sym_prv_node if self.private else sym_pub_node
        ref, n = mk(B, "self", with_parent=False, depth_hi=240)
        xs = [B.int(f"x{i}") for i in range(self.levels)]
        return [ref], dict(index_list=B.list(xs)), NS(n=n, xs=xs)

    def modifies(self, c, I):
        return {(I.n.children.oid, "items")}

    def post(self, c, I, out):
        n = I.n
        in_range = land(*[land(x >= 0, x < 2 ** 32) for x in I.xs])
        if self.private:
            bad, k, cc, levels = spec_derive_prv(n.k, n.cc, I.xs)
        else:
            bad, key, pt, cc, levels = spec_derive_pub(n.key, n.pt, n.cc, I.xs)
        yield "raises.iff_some_level_invalid_or_refused", implies(in_range, iff(out.raised, bad))
        yield "raises.index_out_of_range", implies(lnot(in_range), out.raised)
        if out.returned:
            if not I.xs:
                yield "ensures.empty_path_is_self", out.value == n.ref
            else:
                yield from node_chain_clauses(c, out.value, n.ref, levels, I.xs, self.private, n.testnet, n.depth)


for _priv in (True, False):
    for _n in range(7):
        CONTRACTS.append(type(f"DerivePath{'Prv' if _priv else 'Pub'}{_n}", (_DerivePath,), dict(private=_priv, levels=_n))())


class _GenerateChildren:
    """C06/C13: generate_children((a, b)) == [ckd(i) for i in range(a, b)], in order, len = max(0, b - a)"""
    target = "btc_hd_wallet.bip32.PubKeyNode.generate_children"
    props = ("C06", "C13", "C14")
    private = True

    def inputs(self, B):
        mk = sym_prv_node if self.private else sym_pub_node
        ref, n = mk(B, "self", with_parent=False, depth_hi=240)
        a = B.int("start", 0, 2 ** 32)
        b = B.int("end", 0, 2 ** 32 + 1) if not B.concrete else min(2 ** 32, max(0, a + B.int("rows", -1, 4)))
        return [ref], dict(interval=(a, b)), NS(n=n, a=a, b=b)

    def modifies(self, c, I):
        return {(I.n.children.oid, "items")}

    def post(self, c, I, out):
        from pyvc.engine import SymList
        n = I.n
        if out.returned:
            v = out.value
            if isinstance(v, Ref) and isinstance(c.deref(v), HList) and isinstance(I.a, int):
                # concrete replay: element by element against the spec
                items = c.deref(v).items
                yield "ensures.row_count", len(items) == max(0, I.b - I.a) and c.deref(v).base is None
                for off, child in enumerate(items[:6]):
                    j = I.a + off
                    if self.private:
                        bad, k, cc, levels = spec_derive_prv(n.k, n.cc, [j])
                    else:
                        bad, key, pt, cc, levels = spec_derive_pub(n.key, n.pt, n.cc, [j])
                    yield from node_chain_clauses(c, child, n.ref, levels, [j], self.private, n.testnet, n.depth)
                return
            if isinstance(v, Ref) and isinstance(c.deref(v), HList):
                yield "ensures.empty_only_for_empty_interval", land(c.deref(v).base is None, len(c.deref(v).items) == 0, I.a >= I.b)
                return
            ok = isinstance(v, SymList)
            yield "ensures.is_map_over_range", ok
            if ok:
                yield "ensures.range_bounds", land(eq(v.lo, I.a), eq(v.hi, I.b))
                j = v.j
                if self.private:
                    bad, k, cc, levels = spec_derive_prv(n.k, n.cc, [j])
                else:
                    bad, key, pt, cc, levels = spec_derive_pub(n.key, n.pt, n.cc, [j])
                yield from node_chain_clauses(c, v.elem, n.ref, levels, [j], self.private, n.testnet, n.depth)


for _priv in (True, False):
    CONTRACTS.append(type(f"GenerateChildren{'Prv' if _priv else 'Pub'}", (_GenerateChildren,), dict(private=_priv))())


class CanaryWifSecondHalf(Bip85Wif):
    """must FAIL: spec taking the WIF secret from entropy[32:]"""
    props = ("C12",)

    def post(self, c, I, out):
        if out.returned:
            bad, ent = bip85_entropy(I.mn, [83696968 + HARD, 2 + HARD, I.index + HARD])
            yield "canary.second_half", eq(out.value, SUM.b58chk(Rope.of(b"\x80") + ent.slice(32, 64) + Rope.of(b"\x01")))


CANARIES += [CanaryWifSecondHalf()]
