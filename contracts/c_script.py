"""Sidecar contracts for btc_hd_wallet/script.py and the varint functions of helper.py (C19, C05)."""
from . import summaries as _SUM_ALWAYS      # noqa: F401,E402  (summaries installed independent of import order)
import z3
from pyvc import logic as L
from pyvc import engine as E
from pyvc.logic import (Rope, as_rope, is_sym, land, lor, lnot, implies, iff, eq, ite, seg, to_le)
from pyvc.engine import Ref, HObj, HList, HBytesIO, Undecided, PyRaise
from pyvc.streams import SymStream, SymChunk
from pyvc.verify import NS
from .common import repo

CONTRACTS = []
CANARIES = []


def contract(cls):
    CONTRACTS.append(cls())
    return cls


def canary(cls):
    CANARIES.append(cls())
    return cls


def _chunks(vals, k):
    return [vals[i:i + k] for i in range(0, len(vals), k)]


# ---------------------------------------------------------------------------- spec (Bitcoin wire format)
def spec_varint(i, form):
    """CompactSize of i in its shortest form; `form` = 0..3 selects the range (case split by the caller)"""
    if form == 0:
        return seg(i, 1)
    if form == 1:
        return Rope.of(b"\xfd") + seg(i, 2, True)
    if form == 2:
        return Rope.of(b"\xfe") + seg(i, 4, True)
    return Rope.of(b"\xff") + seg(i, 8, True)


VARINT_RANGES = [(0, 0xfd), (0xfd, 0x10000), (0x10000, 0x100000000), (0x100000000, 2 ** 64)]


def spec_push_prefix(n):
    """minimal push opcode + length for a data element of n bytes, 1 <= n <= 520"""
    if 1 <= n <= 75:
        return bytes([n])
    if 76 <= n <= 255:
        return bytes([76, n])
    if 256 <= n <= 520:
        return bytes([77]) + n.to_bytes(2, "little")
    raise ValueError(n)


@contract
class EncodeVarint:
    """C19: shortest standard form for every value below 2^64; larger (and negative) values are refused"""
    target = "btc_hd_wallet.helper.encode_varint"
    props = ("C19",)

    def inputs(self, B):
        i = B.int("i")
        return [i], {}, NS(i=i)

    def post(self, c, I, out):
        i = I.i
        yield "raises.iff_negative_or_ge_2_64", iff(out.raised, lor(i < 0, i >= 2 ** 64))
        if out.returned:
            for f, (lo, hi) in enumerate(VARINT_RANGES):
                yield f"ensures.shortest_form[{f}]", implies(land(i >= lo, i < hi), eq(out.value, spec_varint(i, f)) if len(as_rope(out.value)) == [1, 3, 5, 9][f] else False)


@contract
class ReadVarintRoundTrip:
    """C19: read_varint(stream(varint(i) || rest)) == i and the position advances by exactly the encoding"""
    target = "btc_hd_wallet.helper.read_varint"
    props = ("C19",)

    def inputs(self, B):
        f = B.case("form", 4)
        lo, hi = VARINT_RANGES[f]
        i = B.int("i", lo, hi)
        rest = B.bytes("rest", B.case("rest_len", 3))
        enc = spec_varint(i, f)
        s = B.ctx.alloc(HBytesIO(enc + as_rope(rest)))
        return [s], {}, NS(i=i, s=s, n=len(enc))

    def modifies(self, c, I):
        return {(I.s.oid, "pos")}

    def post(self, c, I, out):
        yield "ensures.returns", out.returned
        if out.returned:
            yield "ensures.value", eq(out.value, I.i)
            yield "ensures.position_after_encoding", c.deref(I.s).pos == I.n


@contract
class ReadVarintAnyForm:
    """C19: non-minimal but complete encodings are read per their prefix byte (fd/fe/ff + 2/4/8 LE bytes)"""
    target = "btc_hd_wallet.helper.read_varint"
    props = ("C19",)

    def inputs(self, B):
        L_ = B.case("stream_len", 11)
        data = B.bytes("data", L_)
        s = B.ctx.alloc(HBytesIO(as_rope(data)))
        return [s], {}, NS(data=as_rope(data), L=L_, s=s)

    def modifies(self, c, I):
        return {(I.s.oid, "pos")}

    def post(self, c, I, out):
        d, n = I.data, I.L
        if n == 0:
            yield "raises.empty_stream", out.raised
            return
        b0 = d[0]
        need = ite(b0 == 0xfd, 3, ite(b0 == 0xfe, 5, ite(b0 == 0xff, 9, 1)))
        yield "raises.iff_stream_shorter_than_announced", iff(out.raised, need > n)
        if out.returned:
            pos = c.deref(I.s).pos
            yield "ensures.position", eq(pos, need)
            exp = ite(b0 == 0xfd, d.slice(1, 3).le() if n >= 3 else 0,
                      ite(b0 == 0xfe, d.slice(1, 5).le() if n >= 5 else 0,
                          ite(b0 == 0xff, d.slice(1, 9).le() if n >= 9 else 0, b0)))
            yield "ensures.value", eq(out.value, exp)


@contract
class ReadVarintTruncated:
    """C19: on a stream of ANY size, read_varint returns only if all announced bytes were present"""
    target = "btc_hd_wallet.helper.read_varint"
    props = ("C19",)

    def inputs(self, B):
        size = B.int("size", 0, None)
        s = SymStream(size, 0) if not B.concrete else None
        if B.concrete:
            raise Undecided("symbolic stream has no concrete replay (covered by ReadVarintAnyForm)")
        return [s], {}, NS(s=s, size=size)

    def post(self, c, I, out):
        s = I.s
        if out.returned:
            yield "ensures.consumed_within_stream", land(s.pos <= I.size, lor(s.pos == 1, s.pos == 3, s.pos == 5, s.pos == 9))
        else:
            yield "raises.only_when_short", I.size < 9


class _RawSerializeData:
    """C19/C05: one data element of n bytes (symbolic content) serialises to the minimal push: bare length
    byte (1-75), PUSHDATA1 (76-255), PUSHDATA2 (256-520); elements over 520 bytes are refused"""
    target = "btc_hd_wallet.script.Script.raw_serialize"
    props = ("C19", "C05")
    lengths = ()

    def inputs(self, B):
        n = self.lengths[B.case("length", len(self.lengths))]
        data = B.bytes("data", n)
        R = repo()
        sc = B.obj(R.script.Script, cmds=B.list([data]))
        return [sc], {}, NS(n=n, data=data)

    def post(self, c, I, out):
        n = I.n
        yield "raises.iff_over_520", out.raised == (n > 520)
        if out.returned:
            yield "ensures.minimal_push", eq(out.value, Rope.of(spec_push_prefix(n)) + as_rope(I.data))


for _i, _ch in enumerate(_chunks(list(range(1, 522)) + [522, 600, 65535, 65536, 70000], 66)):
    CONTRACTS.append(type(f"RawSerializeData_{_i}", (_RawSerializeData,), dict(lengths=_ch))())


@contract
class RawSerializeOpcode:
    """C19: an opcode serialises to its single byte; integers outside 0..255 are refused"""
    target = "btc_hd_wallet.script.Script.raw_serialize"
    props = ("C19", "C05")

    def inputs(self, B):
        op = B.int("op")
        R = repo()
        sc = B.obj(R.script.Script, cmds=B.list([op]))
        return [sc], {}, NS(op=op)

    def post(self, c, I, out):
        yield "raises.iff_not_a_byte", iff(out.raised, lor(I.op < 0, I.op > 255))
        if out.returned:
            yield "ensures.single_byte", eq(out.value, seg(I.op, 1))


SHAPES = {
    "p2pkh": ["op", "op", 20, "op", "op"],
    "p2sh": ["op", 20, "op"],
    "witness_v0": ["op", 32],
    "multisig_1of1": ["op", 33, "op", "op"],
    "boundaries": [75, 76, 255, 256, 520, 1],
    "ops_only": ["op", "op", "op"],
    "empty": [],
    "mixed": [1, "op", 77, 2, "op", 300],
}


def build_script(B, shape, roundtrip_ops=True):
    """cmds of the given shape: data elements of the given lengths with symbolic content; opcodes symbolic
    (restricted to {0} u [78, 255] when the script is meant to round-trip: 1..77 are push opcodes)"""
    cmds = []
    for i, el in enumerate(shape):
        if el == "op":
            op = B.int(f"op{i}", 0, 256)
            if roundtrip_ops:
                B.assume(lor(op == 0, op >= 78))
            cmds.append(op)
        else:
            cmds.append(B.bytes(f"data{i}", el))
    return cmds


def spec_raw(cmds):
    r = Rope()
    for x in cmds:
        if isinstance(x, (Rope, bytes)):
            r = r + Rope.of(spec_push_prefix(len(x))) + as_rope(x)
        else:
            r = r + seg(x, 1)
    return r


class _SerializeShape:
    """C19/C05: serialize() = varint(len) || concatenation of the per-command encodings, for the script shape"""
    target = "btc_hd_wallet.script.Script.serialize"
    props = ("C19",)
    shape = "p2pkh"

    def inputs(self, B):
        cmds = build_script(B, SHAPES[self.shape], roundtrip_ops=False)
        R = repo()
        sc = B.obj(R.script.Script, cmds=B.list(cmds))
        return [sc], {}, NS(cmds=cmds)

    def post(self, c, I, out):
        yield "ensures.returns", out.returned
        if out.returned:
            raw = spec_raw(I.cmds)
            n = len(raw)
            f = [k for k, (lo, hi) in enumerate(VARINT_RANGES) if lo <= n < hi][0]
            yield "ensures.varint_prefixed_concatenation", eq(out.value, spec_varint(n, f) + raw)


class _ParseRoundTrip:
    """C19: parse(serialise(script)) == script (equal command lists), all declared bytes consumed"""
    target = "btc_hd_wallet.script.Script.parse"
    props = ("C19",)
    shape = "p2pkh"

    def mk_cmds(self, B):
        return build_script(B, SHAPES[self.shape])

    def inputs(self, B):
        cmds = self.mk_cmds(B)
        raw = spec_raw(cmds)
        n = len(raw)
        f = [k for k, (lo, hi) in enumerate(VARINT_RANGES) if lo <= n < hi][0]
        tail = B.bytes("tail", B.case("tail_len", 2))
        s = B.ctx.alloc(HBytesIO(spec_varint(n, f) + raw + as_rope(tail)))
        R = repo()
        return [R.script.Script, s], {}, NS(cmds=cmds, s=s, total=len(spec_varint(n, f)) + n)

    def modifies(self, c, I):
        return {(I.s.oid, "pos")}

    def post(self, c, I, out):
        yield "ensures.returns", out.returned
        if out.returned:
            o = c.deref(out.value)
            got = c.deref(o.fields["cmds"])
            ok = got.base is None and len(got.items) == len(I.cmds)
            yield "ensures.same_number_of_commands", ok
            if ok:
                for i, (a, b) in enumerate(zip(got.items, I.cmds)):
                    yield f"ensures.command[{i}]", eq(a, b) if isinstance(b, (Rope, bytes)) == isinstance(L.simplify_native(a), (Rope, bytes)) else False
            yield "ensures.exactly_declared_bytes_consumed", c.deref(I.s).pos == I.total


for _name in SHAPES:
    CONTRACTS.append(type(f"SerializeShape_{_name}", (_SerializeShape,), dict(shape=_name))())
    CONTRACTS.append(type(f"ParseRoundTrip_{_name}", (_ParseRoundTrip,), dict(shape=_name))())


class _ParseRoundTripLen(_ParseRoundTrip):
    lengths = ()

    def mk_cmds(self, B):
        n = self.lengths[B.case("length", len(self.lengths))]
        return [B.bytes("data", n)]


for _i, _ch in enumerate(_chunks(list(range(1, 521)), 65)):
    CONTRACTS.append(type(f"ParseRoundTripLen_{_i}", (_ParseRoundTripLen,), dict(lengths=_ch))())


class ParseLoop:
    """invariant of the command loop of Script.parse: the stream position is the position after the
    length prefix plus the bytes accounted so far, and never beyond the end of the stream"""
    name = "Script.parse.loop0"

    def at_entry(self, ctx, frame, it):
        s = frame.env["s"]
        return NS(s=s, pos0=s.pos)

    def invariant(self, ctx, frame, g):
        count = frame.env["count"]
        return land(eq(g.s.pos, g.pos0 + count), count >= 0, g.s.pos <= g.s.size)

    def havoc(self, ctx, frame, g):
        k = ctx.loop_counter
        frame.env["count"] = z3.Int(f"count!{k}")
        frame.env["cmds"] = ctx.new_list([], base=f"cmds!{k}")
        g.s.pos = z3.Int(f"pos!{k}")
        for v in ("current", "current_byte", "n", "data_length", "op_code"):
            frame.env.pop(v, None)

    def variant(self, ctx, frame, g):
        return frame.env["length"] - frame.env["count"]


@contract
class ParseTruncation:
    """C19: parsing ANY byte string either fails or accounts for exactly the declared number of bytes, all of
    which were present: input that ends early is never accepted (loop invariant, stream of symbolic size)"""
    target = "btc_hd_wallet.script.Script.parse"
    props = ("C19",)
    loops = {0: ParseLoop()}

    def inputs(self, B):
        if B.concrete:
            raise Undecided("symbolic stream has no concrete replay (truncations are replayed by ParseTruncationBounded)")
        size = B.int("size", 0, None)
        s = SymStream(size, 0)
        R = repo()
        return [R.script.Script, s], {}, NS(s=s, size=size)

    def post(self, c, I, out):
        if out.returned:
            yield "ensures.consumed_bytes_were_present", I.s.pos <= I.size
            yield "ensures.result_is_script", isinstance(out.value, Ref) and c.deref(out.value).cls is repo().script.Script


class Acc(L.SymVal):
    """a byte string of unknown content to which the loop body appends: only `+ x` is understood; the appended
    parts are recorded in order"""
    def __init__(self, base, parts=()):
        self.base, self.parts = base, list(parts)

    def sym_type(self):
        return bytes

    def sym_binop(self, ctx, op, other, reflected):
        import ast as _ast
        if isinstance(op, _ast.Add) and not reflected:
            return Acc(self.base, self.parts + [L.simplify_native(other)])
        raise Undecided("accumulator used other than by appending")

    def __repr__(self):
        return f"Acc({self.base}, {self.parts})"


class SerializeStepLoop:
    """one iteration of the command loop of raw_serialize, from ANY accumulated prefix, for a GENERIC command:
       an integer o (0..255)             appends the byte o;
       a data element of L bytes          appends push-prefix(L) (bare L / 4c L / 4d le16(L)) and then the element
                                          itself, for 1 <= L <= 520; raises for L > 520
    so raw_serialize(cmds) is the concatenation of the per-command encodings for lists of any length."""
    name = "Script.raw_serialize.step"

    def at_entry(self, ctx, frame, it):
        return NS()

    def invariant(self, ctx, frame, g):
        return True

    def havoc(self, ctx, frame, g):
        k = ctx.loop_counter
        g.base = f"result!{k}"
        g.kind = None
        ctx.ghost = getattr(ctx, "ghost", {})
        ctx.ghost[self.name] = g
        frame.env["result"] = Acc(g.base)
        for v in ("cmd", "length"):
            frame.env.pop(v, None)

    def for_cond(self, ctx, frame, g):
        return z3.Bool(f"has_next!{ctx.loop_counter}")

    def for_element(self, ctx, frame, g):
        if ctx.branch(z3.Bool(f"cmd_is_opcode!{ctx.loop_counter}")):
            g.kind = "op"
            g.cmd = z3.Int(f"opcode!{ctx.loop_counter}")
        else:
            g.kind = "data"
            g.cmd = L.OBytes.sym(f"element!{ctx.loop_counter}")
        return g.cmd

    def for_advance(self, ctx, frame, g):
        pass

    def after_body(self, ctx, frame, g):
        r = frame.env["result"]
        ok = isinstance(r, Acc) and r.base == g.base
        ctx.side_check("step.appends_to_the_accumulated_bytes", ok)
        if not ok:
            return
        if g.kind == "op":
            ctx.side_check("step.opcode.is_a_byte", land(g.cmd >= 0, g.cmd <= 255))
            ctx.side_check("step.opcode.appends_its_byte", len(r.parts) == 1 and isinstance(r.parts[0], Rope) and eq(r.parts[0], seg(g.cmd, 1)))
            return
        Ln = g.cmd.len
        ctx.side_check("step.data.at_most_520_bytes", Ln <= 520)
        last_is_cmd = bool(r.parts) and r.parts[-1] is g.cmd
        ctx.side_check("step.data.ends_with_the_element_itself", last_is_cmd)
        hdr = Rope()
        good = True
        for x in r.parts[:-1]:
            if isinstance(x, (Rope, bytes)):
                hdr = hdr + as_rope(x)
            else:
                good = False
        ctx.side_check("step.data.prefix_is_bytes", good)
        if not good:
            return
        ctx.side_check("step.data.bare_length_prefix", implies(Ln <= 75, eq(hdr, seg(Ln, 1)) if len(hdr) == 1 else False))
        ctx.side_check("step.data.pushdata1_prefix", implies(land(Ln >= 76, Ln <= 255), eq(hdr, Rope.of(b"\x4c") + seg(Ln, 1)) if len(hdr) == 2 else False))
        ctx.side_check("step.data.pushdata2_prefix", implies(land(Ln >= 256, Ln <= 520), eq(hdr, Rope.of(b"\x4d") + seg(Ln, 2, True)) if len(hdr) == 3 else False))


@contract
class SerializeStep:
    """C19: the step contract of raw_serialize (see SerializeStepLoop); also: an over-long element raises"""
    target = "btc_hd_wallet.script.Script.raw_serialize"
    props = ("C19",)
    loops = {0: SerializeStepLoop()}

    def inputs(self, B):
        if B.concrete:
            raise Undecided("generic-element step contract has no concrete replay (RawSerializeData_* replay per length)")
        R = repo()
        sc = B.obj(R.script.Script, cmds=B.list_sym("cmds"))
        return [sc], {}, NS()

    def post(self, c, I, out):
        g = (getattr(c, "ghost", None) or {}).get(SerializeStepLoop.name)
        if out.raised and g is not None and g.kind is not None:
            # the only way the body may raise: an element longer than 520 bytes, or an integer that is not a byte
            if g.kind == "data":
                yield "raises.data_only_if_over_520", g.cmd.len > 520
            else:
                yield "raises.opcode_only_if_not_a_byte", lor(g.cmd < 0, g.cmd > 255)


class ParseStepLoop(ParseLoop):
    """one iteration of the command loop from an ARBITRARY loop state is the inverse of the standard element
    encoding: with b = the byte at the current position p,
       1 <= b <= 75  : appends the b bytes at p+1,                         advances by 1 + b
       b == 76       : appends the S(p+1) bytes at p+2,                    advances by 2 + S(p+1)
       b == 77       : appends the S(p+1) + 256*S(p+2) bytes at p+3,       advances by 3 + that
       otherwise     : appends the integer b,                              advances by 1
    (the decode table is written from the Script wire format, not from the code).  Together with the serializer
    contracts (RawSerializeData_*: ser(data) = push-prefix(len) || data, opcode = its byte) and lemmas.l_c19 this
    gives the list-level round trip for scripts of any number of elements."""
    name = "Script.parse.step"

    def havoc(self, ctx, frame, g):
        super().havoc(ctx, frame, g)
        g.p = g.s.pos
        g.count0 = frame.env["count"]
        g.cmds0 = frame.env["cmds"]

    def after_body(self, ctx, frame, g):
        S, p = g.s, g.p
        b0 = S.byte_at(p)
        lst = ctx.deref(frame.env["cmds"])
        same_list = frame.env["cmds"] == g.cmds0 and lst.base == f"cmds!{ctx.loop_counter}"
        one = same_list and len(lst.items) == 1
        ctx.side_check("step.appends_exactly_one_command", one)
        if not one:
            return
        item = L.simplify_native(lst.items[0])
        is_chunk = isinstance(item, SymChunk) and item.stream is S
        l1 = S.byte_at(p + 1)
        l2 = S.byte_at(p + 1) + 256 * S.byte_at(p + 2)
        cases = [(land(b0 >= 1, b0 <= 75), 1, b0), (b0 == 76, 2, l1), (b0 == 77, 3, l2)]
        is_op = land(lnot(cases[0][0]), lnot(cases[1][0]), lnot(cases[2][0]))
        for (cond, h, ln), nm in zip(cases, ("bare_length", "pushdata1", "pushdata2")):
            ctx.side_check(f"step.{nm}.element_is_the_announced_bytes",
                           implies(cond, land(eq(item.start, p + h), eq(item.length, ln)) if is_chunk else False))
            ctx.side_check(f"step.{nm}.advances_by_encoding_length",
                           implies(cond, land(eq(S.pos, p + h + ln), eq(frame.env["count"], g.count0 + h + ln))))
        ctx.side_check("step.opcode.element_is_the_byte", implies(is_op, False if is_chunk else eq(item, b0)))
        ctx.side_check("step.opcode.advances_by_one", implies(is_op, land(eq(S.pos, p + 1), eq(frame.env["count"], g.count0 + 1))))


@contract
class ParseStep(ParseTruncation):
    """C19: the step contract of Script.parse (see ParseStepLoop)"""
    loops = {0: ParseStepLoop()}

    def post(self, c, I, out):
        return
        yield


@contract
class ParsePrefixes:
    """C19 (truncations of valid serialisations): every proper prefix of the serialisation of a script is refused"""
    target = "btc_hd_wallet.script.Script.parse"
    props = ("C19",)
    max_paths = 2000

    def inputs(self, B):
        shape = ["p2pkh", "mixed", "boundaries"][B.case("shape", 3)]
        cmds = build_script(B, SHAPES[shape])
        raw = spec_raw(cmds)
        n = len(raw)
        f = [k for k, (lo, hi) in enumerate(VARINT_RANGES) if lo <= n < hi][0]
        full = spec_varint(n, f) + raw
        cuts = sorted(set([0, 1, 2, 3, len(full) - 1, len(full) - 2, len(full) // 2, len(full) // 3] +
                          [len(spec_varint(n, f)) + len(spec_raw(cmds[:k])) for k in range(len(cmds))] +
                          [len(spec_varint(n, f)) + len(spec_raw(cmds[:k])) + 1 for k in range(len(cmds))]))
        cuts = [x for x in cuts if 0 <= x < len(full)]
        cut = cuts[B.case("cut", len(cuts))]
        s = B.ctx.alloc(HBytesIO(full.slice(0, cut)))
        R = repo()
        return [R.script.Script, s], {}, NS(s=s)

    def modifies(self, c, I):
        return {(I.s.oid, "pos")}

    def post(self, c, I, out):
        yield "raises.truncated_input_refused", out.raised


@canary
class CanaryPush76(_RawSerializeData):
    """must FAIL: spec claims a bare length byte up to 76"""
    lengths = (76,)

    def post(self, c, I, out):
        if out.returned:
            yield "canary.bare_length_76", eq(out.value, Rope.of(bytes([76])) + as_rope(I.data))


# ------------------------------------------------------------------------------------------ script builders (C05)
BUILDERS = {"p2wsh_script": (32, lambda h: Rope.of(b"\x00\x20") + h),
            "p2wpkh_script": (20, lambda h: Rope.of(b"\x00\x14") + h),
            "p2sh_script": (20, lambda h: Rope.of(b"\xa9\x14") + h + Rope.of(b"\x87")),
            "p2pkh_script": (20, lambda h: Rope.of(b"\x76\xa9\x14") + h + Rope.of(b"\x88\xac"))}


class _Builder:
    """C05: the script builder serialises to the standard scriptPubKey template"""
    fname = "p2pkh_script"
    props = ("C05",)

    @property
    def target(self):
        return f"btc_hd_wallet.script.{self.fname}"

    def run(self, ctx, f, args, kwargs, I):
        sc = ctx.call_value(f, args, kwargs)
        return ctx.call_value(ctx.getattr(sc, "raw_serialize"), [], {})

    def run_real(self, f, rargs, rkw, I):
        return f(*rargs, **rkw).raw_serialize()

    def inputs(self, B):
        n = BUILDERS[self.fname][0]
        h = B.bytes("h", n)
        return [h], {}, NS(h=as_rope(h))

    def post(self, c, I, out):
        yield "ensures.returns", out.returned
        if out.returned:
            yield "ensures.standard_template", eq(out.value, BUILDERS[self.fname][1](I.h))


for _f in BUILDERS:
    CONTRACTS.append(type("Builder_" + _f, (_Builder,), dict(fname=_f))())


class _WrongStepLoop(ParseStepLoop):
    name = "Script.parse.step.canary"

    def after_body(self, ctx, frame, g):
        S, p = g.s, g.p
        b0 = S.byte_at(p)
        # must FAIL: claims byte 76 is a bare length
        ctx.side_check("canary.step.byte76_is_bare_length", implies(b0 == 76, eq(S.pos, p + 1 + 76)))


@canary
class CanaryParseStep(ParseTruncation):
    """must FAIL: a step specification that treats byte 76 as a bare length"""
    loops = {0: _WrongStepLoop()}

    def post(self, c, I, out):
        return
        yield
