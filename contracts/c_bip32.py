"""Sidecar contracts for btc_hd_wallet/bip32.py (DESIGN Appendix A)."""
import z3
from pyvc import prims as U
from pyvc.logic import (Rope, as_rope, is_sym, land, lor, lnot, implies, iff, eq, to_be, ite, seg)
from pyvc.engine import Ref, HObj, HList
from pyvc.verify import NS
from .common import (N, HARD, repo, sym_prv_node, sym_pub_node, ser32, ser256, serP, field,
                     fingerprint_of_point)

CONTRACTS = []


def contract(cls):
    CONTRACTS.append(cls())
    return cls


def child_clauses(c, I, out, cls, key_expected, cc_expected):
    """what BIP32 says about the freshly built child node object + the frame on self.children"""
    v = out.value
    isnew = isinstance(v, Ref) and v.oid not in c.entry_snapshot and isinstance(c.deref(v), HObj)
    yield "ensures.child_is_new_node", isnew
    if not isnew:
        return
    o = c.deref(v)
    yield "ensures.child_class", o.cls is cls
    yield "ensures.key", eq(o.fields.get("key"), key_expected)
    yield "ensures.chain_code", eq(o.fields.get("chain_code"), cc_expected)
    yield "ensures.depth", eq(o.fields.get("depth"), I.n.depth + 1)
    yield "ensures.index", eq(o.fields.get("index"), I.index)
    yield "ensures.testnet", eq(o.fields.get("testnet"), I.n.testnet)
    yield "ensures.parent_is_self", o.fields.get("parent") == I.n.ref
    yield "ensures.no_parsed_fingerprint", o.fields.get("parsed_parent_fingerprint") is None
    ch = o.fields.get("children")
    yield "ensures.child_children_empty", isinstance(ch, Ref) and isinstance(c.deref(ch), HList) \
        and c.deref(ch).base is None and c.deref(ch).items == []
    sc = c.deref(I.n.children)
    yield "ensures.children_appended", sc.base == "self_children" and len(sc.items) == 1 and sc.items[0] == v


def no_append_clause(c, I):
    sc = c.deref(I.n.children)
    return sc.base == "self_children" and len(sc.items) == 0


@contract
class PrvCkd:
    """C01/C18/C13/C16: PrvKeyNode.ckd == BIP32 CKDpriv, invalid children are errors."""
    target = "btc_hd_wallet.bip32.PrvKeyNode.ckd"
    props = ("C01", "C13", "C16", "C18")

    def inputs(self, B):
        ref, n = sym_prv_node(B, "self")
        index = B.int("index")
        return [ref, index], {}, NS(n=n, index=index)

    def modifies(self, c, I):
        return {(I.n.children.oid, "items")}

    def post(self, c, I, out):
        k, idx = I.n.k, I.index
        in_range = land(idx >= 0, idx < 2 ** 32)
        hardened = idx >= HARD
        # BIP32: data layout by hardened / normal
        data_h = Rope.of(b"\x00") + ser256(k) + seg(idx, 4)
        data_n = serP(U.ecmul(k)) + seg(idx, 4)
        Hh = U.hmac512(I.n.cc, data_h)
        Hn = U.hmac512(I.n.cc, data_n)
        IL = ite(hardened, Hh.slice(0, 32).be(), Hn.slice(0, 32).be())
        IRv = ite(hardened, Hh.slice(32, 64).be(), Hn.slice(32, 64).be())
        ki = (IL + k) % N
        invalid = lor(IL >= N, ki == 0)
        yield "raises.index_out_of_range", implies(lnot(in_range), out.raised)
        yield "raises.IL_ge_n", implies(land(in_range, IL >= N), out.raised)
        yield "raises.ki_zero", implies(land(in_range, ki == 0), out.raised)
        yield "raises.only_if_invalid", implies(out.raised, lor(lnot(in_range), invalid))
        if out.raised:
            yield "ensures.no_child_appended_on_error", no_append_clause(c, I)
            return
        yield from child_clauses(c, I, out, repo().bip32.PrvKeyNode,
                                 seg(ki, 32), seg(IRv, 32))
