"""Sidecar contracts for btc_hd_wallet/bip32.py (DESIGN Appendix A)."""
from . import summaries as _SUM_ALWAYS      # noqa: F401,E402  (summaries installed independent of import order)
import z3
from pyvc import prims as U
from pyvc.logic import (Rope, as_rope, is_sym, land, lor, lnot, implies, iff, eq, to_be, ite, seg)
from pyvc.engine import Ref, HObj, HList
from pyvc.verify import NS
from .common import (is_obj, spec_prv_ckd_terms, spec_pub_ckd_terms, N, HARD, repo, sym_prv_node, sym_pub_node, ser32, ser256, serP, field,
                     fingerprint_of_point)

CONTRACTS = []


def contract(cls):
    CONTRACTS.append(cls())
    return cls


def child_clauses(c, I, out, cls, key_expected, cc_expected):
    """what BIP32 says about the freshly built child node object + the frame on self.children"""
    v = out.value
    isnew = isinstance(v, Ref) and v.oid not in c.entry_snapshot and is_obj(c, v)
    yield "ensures.child_is_new_node", isnew
    if not isnew:
        return
    o = c.deref(v)
    yield "ensures.child_class", o.cls is cls
    yield "ensures.key", eq(o.fields.get("key"), key_expected)
    yield "ensures.chain_code", eq(o.fields.get("chain_code"), cc_expected)
    yield "ensures.depth", eq(o.fields.get("depth"), I.n.depth + 1)
    yield "ensures.index", eq(o.fields.get("index"), I.index)
    yield "ensures.testnet", eq(o.fields.get("testnet"), I.n.testnet)
    yield "ensures.parent_is_self", o.fields.get("parent") == I.n.ref
    yield "ensures.no_parsed_fingerprint", o.fields.get("parsed_parent_fingerprint") is None
    ch = o.fields.get("children")
    yield "ensures.child_children_empty", isinstance(ch, Ref) and isinstance(c.deref(ch), HList) \
        and c.deref(ch).base is None and c.deref(ch).items == []
    sc = c.deref(I.n.children)
    yield "ensures.children_appended", sc.base == "self_children" and len(sc.items) == 1 and sc.items[0] == v


def no_append_clause(c, I):
    sc = c.deref(I.n.children)
    return sc.base == "self_children" and len(sc.items) == 0


@contract
class PrvCkd:
    """C01/C18/C13/C16: PrvKeyNode.ckd == BIP32 CKDpriv, invalid children are errors."""
    target = "btc_hd_wallet.bip32.PrvKeyNode.ckd"
    props = ("C01", "C13", "C16", "C18")

    def inputs(self, B):
        ref, n = sym_prv_node(B, "self")
        index = B.int("index")
        return [ref, index], {}, NS(n=n, index=index)

    def modifies(self, c, I):
        return {(I.n.children.oid, "items")}

    def post(self, c, I, out):
        k, idx = I.n.k, I.index
        in_range = land(idx >= 0, idx < 2 ** 32)
        IL, IR, ki = spec_prv_ckd_terms(k, I.n.cc, idx)
        invalid = lor(IL >= N, ki == 0)
        yield "raises.index_out_of_range", implies(lnot(in_range), out.raised)
        yield "raises.IL_ge_n", implies(land(in_range, IL >= N), out.raised)
        yield "raises.ki_zero", implies(land(in_range, ki == 0), out.raised)
        yield "raises.only_if_invalid", implies(out.raised, lor(lnot(in_range), invalid))
        if out.raised:
            yield "ensures.no_child_appended_on_error", no_append_clause(c, I)
            return
        yield from child_clauses(c, I, out, repo().bip32.PrvKeyNode, seg(ki, 32), IR)


# ======================================================================================= helpers
from . import summaries as SUM          # noqa: E402
from pyvc.logic import OBytes, ite     # noqa: E402


def node_point(n):
    """public point of a symbolic node description"""
    return U.ecmul(n.k) if n.private else n.pt


def spec_parent_fp(c, n):
    """parent fingerprint per BIP32 for the node description n"""
    if n.parent is not None:
        po = c.deref(n.parent)
        if issubclass(po.cls, repo().bip32.PrvKeyNode):
            ppt = U.ecmul(n.parent_k)
        else:
            ok, ppt = U.sec_parse(po.fields["key"])
        return fingerprint_of_point(ppt)
    if n.ppf is not None:
        return as_rope(n.ppf)
    return Rope.of(b"\x00" * 4)


def spec_is_master(n):
    return land(n.depth == 0, n.index == 0, n.parent is None)


def spec_xkey_payload(c, n, version, keydata):
    fp = spec_parent_fp(c, n)
    master = spec_is_master(n)
    fpv = ite(master, 0, fp.be())
    return seg(version, 4) + seg(n.depth, 1) + seg(fpv, 4) + seg(n.index, 4) + as_rope(n.cc) + keydata


def mk_node_contracts():
    for private in (True, False):
        tag = "Prv" if private else "Pub"
        mk = sym_prv_node if private else sym_pub_node

        class Fingerprint:
            """C01: fingerprint = first 4 bytes of HASH160(serP(K))"""
            target = "btc_hd_wallet.bip32.PubKeyNode.fingerprint"
            props = ("C01", "C07", "C13")

            def inputs(self, B, mk=mk):
                ref, n = mk(B, "self", with_parent=False)
                return [ref], {}, NS(n=n)

            def post(self, c, I, out):
                yield "ensures.returns", out.returned
                if out.returned:
                    yield "ensures.hash160_serP_first4", eq(out.value, fingerprint_of_point(node_point(I.n)))
        Fingerprint.__name__ = "Fingerprint" + tag
        CONTRACTS.append(Fingerprint())

        class ParentFingerprint:
            target = "btc_hd_wallet.bip32.PubKeyNode.parent_fingerprint"
            props = ("C01", "C07", "C13")

            def inputs(self, B, mk=mk):
                ref, n = mk(B, "self", with_parent=True)
                return [ref], {}, NS(n=n)

            def post(self, c, I, out):
                yield "ensures.returns", out.returned
                if out.returned:
                    yield "ensures.derived_parsed_or_zero", eq(out.value, spec_parent_fp(c, I.n))
        ParentFingerprint.__name__ = "ParentFingerprint" + tag
        CONTRACTS.append(ParentFingerprint())

        class Serialize:
            """C01/C07: 78-byte layout ver4|depth1|fp4|index4|chain32|key33"""
            target = "btc_hd_wallet.bip32.PubKeyNode._serialize"
            props = ("C01", "C07", "C13", "C16")

            def inputs(self, B, mk=mk):
                ref, n = mk(B, "self", with_parent=True, depth_hi=None)
                version = B.int("version")
                key = B.bytes("keydata", 33)
                return [ref], dict(key=key, version=version), NS(n=n, version=version, keydata=key)

            def post(self, c, I, out):
                n = I.n
                ok = land(I.version >= 0, I.version < 2 ** 32, n.depth >= 0, n.depth < 256)
                yield "raises.iff_field_overflow", iff(out.raised, lnot(ok))
                if out.returned:
                    yield "ensures.layout78", eq(out.value, spec_xkey_payload(c, n, I.version, I.keydata))
        Serialize.__name__ = "Serialize" + tag
        CONTRACTS.append(Serialize())

        class SerializePublic:
            """C07: the public serialisation carries serP(K) as its last 33 bytes and the public version"""
            target = "btc_hd_wallet.bip32.PubKeyNode.serialize_public"
            props = ("C01", "C07", "C16")

            def inputs(self, B, mk=mk):
                ref, n = mk(B, "self", with_parent=True, depth_hi=256)
                vc = B.case("version_given", 2)
                version = B.int("version", 0, 2 ** 32) if vc else None
                return [ref], dict(version=version), NS(n=n, version=version)

            def post(self, c, I, out):
                n = I.n
                R = repo()
                defv = ite(n.testnet, 0x043587CF, 0x0488B21E)
                v = defv if I.version is None else I.version
                yield "ensures.returns", out.returned
                if out.returned:
                    exp = spec_xkey_payload(c, n, v, serP(node_point(n)))
                    yield "ensures.layout78_public", eq(out.value, exp)
                    if n.private:
                        yield "ensures.no_private_scalar_segment", not as_rope(out.value).mentions(n.k) \
                            or _only_under_ecmul(as_rope(out.value), n.k)
        SerializePublic.__name__ = "SerializePublic" + tag
        CONTRACTS.append(SerializePublic())

        class ExtendedPublicKey:
            target = "btc_hd_wallet.bip32.PubKeyNode.extended_public_key"
            props = ("C01", "C07", "C16")

            def inputs(self, B, mk=mk):
                ref, n = mk(B, "self", with_parent=True, depth_hi=256)
                vc = B.case("version_given", 2)
                version = B.int("version", 0, 2 ** 32) if vc else None
                return [ref], dict(version=version), NS(n=n, version=version)

            def post(self, c, I, out):
                n = I.n
                defv = ite(n.testnet, 0x043587CF, 0x0488B21E)
                v = defv if I.version is None else I.version
                yield "ensures.returns", out.returned
                if out.returned:
                    exp = SUM.b58chk(spec_xkey_payload(c, n, v, serP(node_point(n))))
                    yield "ensures.base58check_of_layout", eq(out.value, exp)
        ExtendedPublicKey.__name__ = "ExtendedPublicKey" + tag
        CONTRACTS.append(ExtendedPublicKey())


def _only_under_ecmul(rope, k):
    """the private scalar may occur in a public serialisation only as the argument of k*G"""
    kid = k.get_id()

    def walk(e, under):
        if e.get_id() == kid:
            return under
        if z3.is_app(e) and e.decl().name() == "ecmul":
            return all(walk(ch, True) for ch in e.children())
        return all(walk(ch, under) for ch in e.children())
    return all((not is_sym(v)) or walk(v, False) for v, _, _ in rope.segs)


mk_node_contracts()


@contract
class PrivateKeyProp:
    """C01: PrvKeyNode.private_key strips the 00 pad of the 33-byte form"""
    target = "btc_hd_wallet.bip32.PrvKeyNode.private_key"
    props = ("C01", "C09")

    def inputs(self, B):
        ref, n = sym_prv_node(B, "self", with_parent=False)
        return [ref], {}, NS(n=n)

    def post(self, c, I, out):
        yield "ensures.returns", out.returned
        if out.returned:
            o = c.deref(out.value)
            yield "ensures.k_is_32_bytes_of_scalar", eq(o.fields.get("k"), seg(I.n.k, 32))
            K = c.deref(o.fields["K"]).fields["K"]
            yield "ensures.K_is_kG", K.f["pt"].sym_eq(U.ecmul(I.n.k))


@contract
class SerializePrivate:
    target = "btc_hd_wallet.bip32.PrvKeyNode.serialize_private"
    props = ("C01", "C07", "C16")

    def inputs(self, B):
        ref, n = sym_prv_node(B, "self", with_parent=True, depth_hi=256)
        vc = B.case("version_given", 2)
        version = B.int("version", 0, 2 ** 32) if vc else None
        return [ref], dict(version=version), NS(n=n, version=version)

    def post(self, c, I, out):
        n = I.n
        defv = ite(n.testnet, 0x04358394, 0x0488ADE4)
        v = defv if I.version is None else I.version
        yield "ensures.returns", out.returned
        if out.returned:
            exp = spec_xkey_payload(c, n, v, Rope.of(b"\x00") + seg(n.k, 32))
            yield "ensures.layout78_private", eq(out.value, exp)


@contract
class ExtendedPrivateKey:
    target = "btc_hd_wallet.bip32.PrvKeyNode.extended_private_key"
    props = ("C01", "C07", "C16")

    def inputs(self, B):
        ref, n = sym_prv_node(B, "self", with_parent=True, depth_hi=256)
        vc = B.case("version_given", 2)
        version = B.int("version", 0, 2 ** 32) if vc else None
        return [ref], dict(version=version), NS(n=n, version=version)

    def post(self, c, I, out):
        n = I.n
        defv = ite(n.testnet, 0x04358394, 0x0488ADE4)
        v = defv if I.version is None else I.version
        yield "ensures.returns", out.returned
        if out.returned:
            exp = SUM.b58chk(spec_xkey_payload(c, n, v, Rope.of(b"\x00") + seg(n.k, 32)))
            yield "ensures.base58check_of_layout", eq(out.value, exp)


@contract
class PubCkd:
    """C02/C18: PubKeyNode.ckd == BIP32 CKDpub; hardened refused before any key material is used"""
    target = "btc_hd_wallet.bip32.PubKeyNode.ckd"
    props = ("C02", "C13", "C14", "C16", "C18")

    def inputs(self, B):
        ref, n = sym_pub_node(B, "self")
        index = B.int("index")
        return [ref, index], {}, NS(n=n, index=index)

    def modifies(self, c, I):
        return {(I.n.children.oid, "items")}

    def post(self, c, I, out):
        idx = I.index
        n = I.n
        hardened = idx >= HARD
        neg = idx < 0
        IL, IR, Ki = spec_pub_ckd_terms(n.key, n.pt, n.cc, idx)
        invalid = lor(IL >= N, Ki.sym_eq(U.inf()))
        yield "raises.hardened_refused", implies(hardened, out.raised)
        yield "raises.negative_index", implies(neg, out.raised)
        yield "raises.IL_ge_n", implies(land(lnot(hardened), lnot(neg), IL >= N), out.raised)
        yield "raises.point_at_infinity", implies(land(lnot(hardened), lnot(neg), IL < N, IL > 0, Ki.sym_eq(U.inf())), out.raised)
        # A-PRF0 / observation O-1: with the ecdsa back end IL == 0 is rejected as well (DESIGN §3 C02)
        yield "raises.IL_zero_ecdsa_backend", implies(land(lnot(hardened), lnot(neg), IL == 0), out.raised)
        yield "raises.only_if_refused_or_invalid", implies(out.raised, lor(hardened, neg, invalid, IL == 0))
        if out.raised:
            yield "ensures.no_child_appended_on_error", no_append_clause(c, I)
            return
        yield from child_clauses(c, I, out, repo().bip32.PubKeyNode, serP(Ki), IR)


@contract
class MasterKey:
    """C03/C18: master key = halves of HMAC-SHA512("Bitcoin seed", seed); IL = 0 or >= n is an error;
    the network flag does not influence key material"""
    target = "btc_hd_wallet.bip32.PrvKeyNode.master_key"
    props = ("C03", "C16", "C18")

    def inputs(self, B):
        seed = OBytes.sym("seed")
        testnet = B.bool("testnet")
        R = repo()
        return [R.bip32.PrvKeyNode], dict(bip39_seed=seed, testnet=testnet), NS(seed=seed, testnet=testnet)

    def post(self, c, I, out):
        H = U.hmac512(b"Bitcoin seed", I.seed)
        IL = H.slice(0, 32)
        IR = H.slice(32, 64)
        ilv = IL.be()
        yield "raises.IL_zero", implies(ilv == 0, out.raised)
        yield "raises.IL_ge_n", implies(ilv >= N, out.raised)
        yield "raises.only_if_invalid", implies(out.raised, lor(ilv == 0, ilv >= N))
        if out.returned:
            v = out.value
            isnew = isinstance(v, Ref) and v.oid not in c.entry_snapshot
            yield "ensures.new_node", isnew
            if isnew:
                o = c.deref(v)
                yield "ensures.class", o.cls is repo().bip32.PrvKeyNode
                yield "ensures.key_is_IL", eq(o.fields.get("key"), IL)
                yield "ensures.chain_code_is_IR", eq(o.fields.get("chain_code"), IR)
                yield "ensures.depth0", eq(o.fields.get("depth"), 0)
                yield "ensures.index0", eq(o.fields.get("index"), 0)
                yield "ensures.no_parent", o.fields.get("parent") is None
                yield "ensures.no_parsed_fp", o.fields.get("parsed_parent_fingerprint") is None
                yield "ensures.testnet_flag", eq(o.fields.get("testnet"), I.testnet)
                # non-interference: key material does not mention the network flag
                yield "noninterference.testnet", not _mentions(o.fields.get("key"), I.testnet) and \
                    not _mentions(o.fields.get("chain_code"), I.testnet)


def _mentions(v, term):
    from pyvc.logic import simplify_native
    v = simplify_native(v)
    if isinstance(v, Rope):
        return v.mentions(term)
    return False


@contract
class Parse_:
    """C07: _parse slices the stream 4/1/4/4/32/33"""
    target = "btc_hd_wallet.bip32.PubKeyNode._parse"
    props = ("C07",)

    def inputs(self, B):
        R = repo()
        cls = [R.bip32.PubKeyNode, R.bip32.PrvKeyNode][B.case("cls", 2)]
        payload = B.bytes("ver", 4) + B.bytes("depth", 1) + B.bytes("fp", 4) + B.bytes("index", 4) + \
            B.bytes("cc", 32) + B.bytes("key", 33)
        from pyvc.engine import HBytesIO
        s = B.ctx.alloc(HBytesIO(payload))
        testnet = B.bool("testnet")
        return [cls, s], dict(testnet=testnet), NS(cls=cls, payload=payload, testnet=testnet, s=s)

    def modifies(self, c, I):
        return {(I.s.oid, "pos")}

    def post(self, c, I, out):
        p = I.payload
        yield "ensures.returns", out.returned
        if out.returned:
            o = c.deref(out.value)
            yield "ensures.class", o.cls is I.cls
            yield "ensures.version", eq(o.fields.get("parsed_version"), p.slice(0, 4).be())
            yield "ensures.depth", eq(o.fields.get("depth"), p.slice(4, 5).be())
            yield "ensures.fingerprint", eq(o.fields.get("parsed_parent_fingerprint"), p.slice(5, 9))
            yield "ensures.index", eq(o.fields.get("index"), p.slice(9, 13).be())
            yield "ensures.chain_code", eq(o.fields.get("chain_code"), p.slice(13, 45))
            yield "ensures.key", eq(o.fields.get("key"), p.slice(45, 78))
            yield "ensures.testnet", eq(o.fields.get("testnet"), I.testnet)
            yield "ensures.no_parent", o.fields.get("parent") is None
            yield "ensures.stream_consumed", c.deref(I.s).pos == 78


# ======================================================================================= C07 round trip
from pyvc.engine import HBytesIO      # noqa: E402
from pyvc.engine import value_eq      # noqa: E402


class _XkeyRoundTrip:
    """C07: serialising any node under any version and parsing the result back from a string, bytes or a stream
    yields an EQUAL node (the class's own __eq__) that re-serialises under parsed_version to the identical value;
    the public serialisation of a private node round-trips as a PUBLIC node with the same public key"""
    props = ("C07",)
    private = True
    public_form = False

    @property
    def target(self):
        if self.private and not self.public_form:
            return "btc_hd_wallet.bip32.PrvKeyNode.serialize_private"
        return "btc_hd_wallet.bip32.PubKeyNode.serialize_public"

    def _do(self, callf, getattrf, R, I, node, rargs):
        form = I.form
        version = I.version
        prv_out = self.private and not self.public_form
        if form == 0:
            s = callf(getattrf(node, "extended_private_key" if prv_out else "extended_public_key"), [], dict(version=version))
        else:
            s = callf(getattrf(node, "serialize_private" if prv_out else "serialize_public"), [], dict(version=version))
        I.serialised = s
        cls = R.bip32.PrvKeyNode if prv_out else R.bip32.PubKeyNode
        return s, cls

    def run(self, ctx, f, args, kwargs, I):
        R = repo()
        node = args[0]
        s, cls = self._do(lambda fn, a, k: ctx.call_value(fn, a, k), ctx.getattr, R, I, node, args)
        src = s
        if I.form == 2:
            src = ctx.alloc(HBytesIO(as_rope(s)))
        parsed = ctx.call_value(ctx.getattr(cls, "parse"), [src], dict(testnet=I.n.testnet))
        I.parsed = parsed
        prv_out = self.private and not self.public_form
        pv = ctx.getattr(parsed, "parsed_version")
        if I.form == 0:
            again = ctx.call_value(ctx.getattr(parsed, "extended_private_key" if prv_out else "extended_public_key"), [], dict(version=pv))
        else:
            again = ctx.call_value(ctx.getattr(parsed, "serialize_private" if prv_out else "serialize_public"), [], dict(version=pv))
        I.again = again
        if prv_out or not self.private:
            I.equal = value_eq(ctx, parsed, node)
        else:
            I.equal = None
        return parsed

    def run_real(self, f, rargs, rkw, I):
        import io
        R = repo()
        node = rargs[0]
        prv_out = self.private and not self.public_form
        meth = ("extended_" + ("private" if prv_out else "public") + "_key") if I.form == 0 else ("serialize_" + ("private" if prv_out else "public"))
        s = getattr(node, meth)(version=I.version)
        I.serialised = s
        cls = R.bip32.PrvKeyNode if prv_out else R.bip32.PubKeyNode
        src = io.BytesIO(s) if I.form == 2 else s
        parsed = cls.parse(src, testnet=I.n.testnet)
        I.again = getattr(parsed, meth)(version=parsed.parsed_version)
        I.equal = (parsed == node) if (prv_out or not self.private) else None
        return parsed

    def inputs(self, B):
        mk = sym_prv_node if self.private else sym_pub_node
        ref, n = mk(B, "self", with_parent=True, depth_hi=256)
        version = B.int("version", 0, 2 ** 32)
        form = B.case("input_form", 3)             # 0: Base58Check string, 1: bytes, 2: BytesIO
        # BIP32-valid payloads: a depth-0 node is a master node (zero fingerprint and child number)
        if n.ppf is not None:
            B.assume(lnot(land(n.depth == 0, n.index == 0)))
        B.assume(implies(n.depth == 0, n.index == 0))
        if n.parent is not None:
            B.assume(n.depth >= 1)         # a node with a parent is not at depth 0
        return [ref], {}, NS(n=n, version=version, form=form)

    def post(self, c, I, out):
        yield "ensures.returns", out.returned
        if not out.returned:
            return
        n = I.n
        yield "ensures.reserialises_identically", eq(I.again, I.serialised)
        if I.equal is not None:
            yield "ensures.parsed_node_equals_original", I.equal
        o = c.deref(out.value)
        yield "ensures.parsed_version", eq(o.fields.get("parsed_version"), I.version)
        yield "ensures.depth_index_chain", land(eq(o.fields.get("depth"), n.depth), eq(o.fields.get("index"), n.index), eq(o.fields.get("chain_code"), n.cc))
        if self.private and self.public_form:
            yield "ensures.public_node_with_public_key_only", eq(o.fields.get("key"), serP(U.ecmul(n.k)))


for _name, _kw in (("XkeyRoundTripPrv", dict(private=True, public_form=False)), ("XkeyRoundTripPub", dict(private=False, public_form=False)),
                   ("XkeyRoundTripPrvAsPub", dict(private=True, public_form=True))):
    CONTRACTS.append(type(_name, (_XkeyRoundTrip,), _kw)())


# ======================================================================================= canaries (must be REFUTED)
CANARIES = []


class CanaryCkdHalvesSwapped(PrvCkd):
    """must FAIL: spec with IL / IR swapped"""
    props = ("C01", "C18", "C13")

    def post(self, c, I, out):
        if out.returned:
            IL, IR, ki = spec_prv_ckd_terms(I.n.k, I.n.cc, I.index)
            o = c.deref(out.value)
            yield "canary.chain_code_is_IL", eq(o.fields.get("chain_code"), seg(IL, 32))


class CanaryCkdFrameEmpty(PrvCkd):
    """must FAIL: a contract that allows no heap write (ckd appends to self.children)"""
    props = ("C13",)

    def modifies(self, c, I):
        return set()

    def post(self, c, I, out):
        return ()


class CanaryPubCkdGuardOffByOne(PubCkd):
    """must FAIL: spec refusing only indexes above 2^31"""
    props = ("C02", "C14")

    def post(self, c, I, out):
        yield "canary.refused_only_above_2_31", implies(out.raised, lor(I.index > HARD, I.index < 0, *[False]))


CANARIES += [CanaryCkdHalvesSwapped(), CanaryCkdFrameEmpty(), CanaryPubCkdGuardOffByOne()]
