"""Sidecar contracts for the Base58 functions of helper.py (C10): loop invariants over symbolic-length
strings / byte strings.  Spec functions (defined by their unfoldings, supplied as instances):
   chars58(0) = "",  n > 0: chars58(n) = chars58(n div 58) ++ [CH(n mod 58)]
   val58("") = 0,    val58(s ++ [c]) = 58 * val58(s) + IDX(c)
   allin("") = true, allin(s ++ [c]) = allin(s) and IN(c)
"""
from . import summaries as _SUM_ALWAYS      # noqa: F401,E402  (summaries installed independent of import order)
import z3
from pyvc import logic as L
from pyvc import engine as E
from pyvc import seqs as Q
from pyvc.seqs import ZSeq, ZChar, Table, ISeq, rep, rep_unfold, be
from pyvc.logic import land, lor, lnot, implies, iff, eq, is_sym, sink
from pyvc.engine import Undecided, PyRaise, SUMMARIES
from pyvc.verify import NS
from spec import base58 as SB

CONTRACTS = []
CANARIES = []


def contract(cls):
    CONTRACTS.append(cls())
    return cls


def canary(cls):
    CANARIES.append(cls())
    return cls


A58 = SB.ALPHABET
chars58 = z3.Function("chars58", z3.IntSort(), ISeq)
val58 = z3.Function("val58", ISeq, z3.IntSort())
allin = z3.Function("allin58", ISeq, z3.BoolSort())
ONE = ord("1")


def T():
    return Table.of(A58)


def chars58_unfold(n):
    """definitional instance at n"""
    n = L.toint(n)
    t = T()
    return z3.And(z3.Implies(n > 0, chars58(n) == z3.Concat(chars58(n / 58), z3.Unit(t.CHf(n % 58)))),
                  z3.Implies(n <= 0, chars58(n) == z3.Empty(ISeq)))


def snoc_unfold(s, i):
    """definitional instances of val58 / allin at the prefix s[:i+1] = s[:i] ++ s[i:i+1]  (0 <= i < len s)"""
    t = T()
    pre, el, nxt = z3.SubSeq(s, 0, i), z3.SubSeq(s, i, 1), z3.SubSeq(s, 0, i + 1)
    c = s[i]
    return z3.And(nxt == z3.Concat(pre, el), el == z3.Unit(c),
                  val58(nxt) == 58 * val58(pre) + t.IDXf(c),
                  allin(nxt) == z3.And(allin(pre), t.INf(c)))


def empty_facts(s):
    return z3.And(val58(z3.Empty(ISeq)) == 0, allin(z3.Empty(ISeq)), z3.SubSeq(s, 0, 0) == z3.Empty(ISeq),
                  z3.SubSeq(s, 0, z3.Length(s)) == s)


class PrefixLoop:
    """`for c in seq:` counting a leading run of `code` with break: count == i and seq[:i] == [code]*i"""
    def __init__(self, name, seqvar, countvar, code, elem_kind):
        self.name, self.seqvar, self.countvar, self.code, self.elem_kind = name, seqvar, countvar, code, elem_kind

    def at_entry(self, ctx, frame, it):
        if not isinstance(it, ZSeq):
            raise Undecided("loop iterable is not a symbolic sequence")
        g = NS(seq=it, i=0, broke=False)
        ctx.ghost = getattr(ctx, "ghost", {})
        ctx.ghost[self.name] = g
        return g

    def invariant(self, ctx, frame, g):
        s = g.seq.t
        cnt = frame.env[self.countvar]
        i = L.toint(g.i)
        return land(i >= 0, i <= z3.Length(s), eq(cnt, g.i), z3.SubSeq(s, 0, i) == Q._rep(z3.IntVal(self.code), i))

    def havoc(self, ctx, frame, g):
        g.i = z3.Int(f"i!{self.name}!{ctx.loop_counter}")
        frame.env[self.countvar] = z3.Int(f"{self.countvar}!{ctx.loop_counter}")
        sink().add(rep_unfold(self.code, g.i))
        sink().add(Q._rep(z3.IntVal(self.code), z3.IntVal(0)) == z3.Empty(ISeq))

    def for_cond(self, ctx, frame, g):
        return g.i < z3.Length(g.seq.t)

    def for_element(self, ctx, frame, g):
        s = g.seq.t
        sink().add(z3.SubSeq(s, 0, g.i + 1) == z3.Concat(z3.SubSeq(s, 0, g.i), z3.SubSeq(s, g.i, 1)))
        sink().add(z3.SubSeq(s, g.i, 1) == z3.Unit(s[g.i]))
        return s[g.i] if self.elem_kind == "bytes" else ZChar(s[g.i])

    def for_advance(self, ctx, frame, g):
        g.i = g.i + 1

    def after_break(self, ctx, frame, g):
        g.broke = True
        g.final_count = frame.env[self.countvar]

    def at_exit(self, ctx, frame, g):
        g.final_count = frame.env[self.countvar]

    def run_characterisation(self, frame_count, g):
        """what the caller may conclude after the loop: count is the length of the leading run"""
        s = g.seq.t
        n = z3.Length(s)
        cnt = L.toint(frame_count)
        return land(cnt >= 0, cnt <= n, z3.SubSeq(s, 0, cnt) == Q._rep(z3.IntVal(self.code), cnt),
                    lor(cnt == n, s[cnt] != self.code))


class DigitLoop:
    """`while num > 0: num, mod = divmod(num, 58); result = ALPHABET[mod] + result`
    invariant: chars58(num0) == chars58(num) ++ result"""
    name = "encode_base58.loop1"

    def at_entry(self, ctx, frame, it):
        g = NS(num0=frame.env["num"])
        sink().add(chars58_unfold(g.num0))
        return g

    def _res(self, frame):
        r = frame.env["result"]
        c = Q.coerce(r, "str")
        if c is None:
            raise Undecided("result is not a string")
        return c.t

    def invariant(self, ctx, frame, g):
        num = frame.env["num"]
        return land(num >= 0, chars58(L.toint(g.num0)) == z3.Concat(chars58(L.toint(num)), self._res(frame)))

    def havoc(self, ctx, frame, g):
        k = ctx.loop_counter
        frame.env["num"] = z3.Int(f"num!{k}")
        frame.env["result"] = ZSeq(z3.Const(f"result!{k}", ISeq), "str")
        frame.env.pop("mod", None)
        sink().add(chars58_unfold(frame.env["num"]))
        sink().add(chars58_unfold(frame.env["num"] / 58))

    def variant(self, ctx, frame, g):
        return frame.env["num"]


@contract
class EncodeBase58:
    """C10: encode_base58(d) = '1' * lz(d) ++ chars58(be(d)) where lz(d) is the number of leading zero bytes"""
    target = "btc_hd_wallet.helper.encode_base58"
    props = ("C10",)
    loops = {0: PrefixLoop("encode_base58.loop0", "data", "count", 0, "bytes"), 1: DigitLoop()}

    def inputs(self, B):
        if B.concrete:
            n = B.int("len", 0, 40)
            z = B.int("lz", 0, 41) % (n + 1)
            data = bytes(z) + bytes((B.int(f"b{i}", 0, 256) or 1) if i == 0 else B.int(f"b{i}", 0, 256) for i in range(n - z))
            return [data], {}, NS(data=data)
        data = ZSeq.sym("data", "bytes")
        sink().add(Q._rep(z3.IntVal(0), z3.IntVal(0)) == z3.Empty(ISeq))
        return [data], {}, NS(data=data)

    def post(self, c, I, out):
        yield "ensures.returns", out.returned
        if not out.returned:
            return
        if isinstance(I.data, bytes):
            yield "ensures.spec_value", out.value == SB.b58encode(I.data)
            return
        g = c.ghost["encode_base58.loop0"]
        res = Q.coerce(out.value, "str")
        ok = res is not None
        yield "ensures.is_string", ok
        if not ok:
            return
        # the result has the form '1'*count ++ chars58(BE(data)) for SOME count, and that count is lz(data)
        cnt = L.toint(g.final_count)
        yield "ensures.ones_then_digits_of_value", res.t == z3.Concat(Q._rep(z3.IntVal(ONE), cnt), chars58(be(I.data.t)))
        yield "ensures.number_of_ones_is_number_of_leading_zero_bytes", _lz_char(I.data.t, cnt)


def _lz_char(s, cnt):
    n = z3.Length(s)
    return land(cnt >= 0, cnt <= n, z3.SubSeq(s, 0, cnt) == Q._rep(z3.IntVal(0), cnt), lor(cnt == n, s[cnt] != 0))


class AccumulateLoop:
    """`for c in s: if c not in ALPHABET: raise; num *= 58; num += ALPHABET.index(c)`
    invariant: num == val58(s[:i]) and allin(s[:i])"""
    name = "decode_base58.loop0"

    def at_entry(self, ctx, frame, it):
        if not isinstance(it, ZSeq):
            raise Undecided("loop iterable is not a symbolic sequence")
        g = NS(seq=it, i=0)
        ctx.ghost = getattr(ctx, "ghost", {})
        ctx.ghost[self.name] = g
        sink().add(empty_facts(it.t))
        E._table_ground(ctx, T())
        return g

    def invariant(self, ctx, frame, g):
        s = g.seq.t
        i = L.toint(g.i)
        return land(i >= 0, i <= z3.Length(s), eq(frame.env["num"], val58(z3.SubSeq(s, 0, i))), allin(z3.SubSeq(s, 0, i)),
                    frame.env["num"] >= 0)

    def havoc(self, ctx, frame, g):
        k = ctx.loop_counter
        g.i = z3.Int(f"i!acc!{k}")
        frame.env["num"] = z3.Int(f"num!{k}")

    def for_cond(self, ctx, frame, g):
        return g.i < z3.Length(g.seq.t)

    def for_element(self, ctx, frame, g):
        sink().add(snoc_unfold(g.seq.t, g.i))
        return ZChar(g.seq.t[g.i])

    def for_advance(self, ctx, frame, g):
        g.i = g.i + 1


@contract
class DecodeBase58:
    """C10: decode_base58(s) raises iff some character is outside the alphabet; otherwise it returns
    zeros(pad) ++ minbe(val58(s)) where pad = number of leading '1' of s[:-1]"""
    target = "btc_hd_wallet.helper.decode_base58"
    props = ("C10",)
    loops = {0: AccumulateLoop(), 1: PrefixLoop("decode_base58.loop1", "s[:-1]", "pad", ONE, "str")}

    def inputs(self, B):
        if B.concrete:
            n = B.int("len", 0, 30)
            alpha = A58 + "0OIl "
            s = "".join(alpha[B.int(f"c{i}", 0, len(alpha)) if B.int(f"bad{i}", 0, 12) == 0 else B.int(f"c{i}", 0, 58)] if B.int(f"one{i}", 0, 3) else "1"
                        for i in range(n))
            return [], dict(s=s), NS(s=s)
        s = ZSeq.sym("s", "str")
        sink().add(Q._rep(z3.IntVal(ONE), z3.IntVal(0)) == z3.Empty(ISeq))
        return [], dict(s=s), NS(s=s)

    def post(self, c, I, out):
        if isinstance(I.s, str):
            try:
                want = SB.b58decode(I.s) if I.s else b"\x00"
                if I.s and set(I.s) == {"1"}:
                    want = bytes(len(I.s))
                yield "ensures.spec_value", out.returned and bytes(out.value) == want
            except ValueError:
                yield "raises.bad_character", out.raised
            return
        s = I.s.t
        t = T()
        g0 = c.ghost.get("decode_base58.loop0")
        if out.raised:
            # raised inside the accumulate loop at index i: that character is outside the alphabet
            ok = g0 is not None and getattr(out, "in_loop_step", False)
            yield "raises.only_at_a_character_outside_the_alphabet", land(ok, g0.i >= 0, g0.i < z3.Length(s), lnot(t.INf(s[g0.i]))) if ok else False
            return
        yield "ensures.all_characters_in_alphabet", allin(s)
        res = Q.coerce(out.value, "bytes")
        ok = res is not None
        yield "ensures.is_bytes", ok
        if not ok:
            return
        from pyvc.models import minbe
        g1 = c.ghost["decode_base58.loop1"]
        pad = L.toint(g1.final_count)
        body = z3.SubSeq(s, 0, z3.If(z3.Length(s) > 0, z3.Length(s) - 1, 0))
        n = z3.Length(body)
        yield "ensures.zeros_then_minimal_bytes_of_value", res.t == z3.Concat(Q._rep(z3.IntVal(0), pad), minbe(val58(s)))
        yield "ensures.pad_is_number_of_leading_ones_before_last_char", z3.And(
            g1.seq.t == body, pad >= 0, pad <= n, z3.SubSeq(body, 0, pad) == Q._rep(z3.IntVal(ONE), pad), z3.Or(pad == n, body[pad] != ONE))


# ------------------------------------------------------------------ checksum layer (callees by contract)
ENC = z3.Function("ENC58", ISeq, ISeq)           # encode_base58 as a function (its contract: EncodeBase58)
DEC = z3.Function("DEC58", ISeq, ISeq)           # decode_base58 on accepted strings
DEC_OK = z3.Function("DEC58_ok", ISeq, z3.BoolSort())


def s_encode_base58(ctx, args, kw):
    d = args[0] if args else kw["data"]
    z = Q.coerce(d, "bytes")
    if z is None:
        raise Undecided("encode_base58 summary")
    return ZSeq(ENC(z.t), "str")


def s_decode_base58(ctx, args, kw):
    s = args[0] if args else kw["s"]
    z = Q.coerce(s, "str")
    if z is None:
        raise Undecided("decode_base58 summary")
    if not ctx.branch(DEC_OK(z.t)):
        raise PyRaise(ValueError)
    return ZSeq(DEC(z.t), "bytes")


def H4(p):
    """first four bytes of the double SHA-256 of p"""
    sha = Q.hash_fn("sha256")
    h = sha(sha(p))
    sink().add(z3.Length(h) == 32)
    sink().add(z3.Length(sha(p)) == 32)
    return z3.SubSeq(h, 0, 4)


class _WithSeqSummaries:
    def run(self, ctx, f, args, kwargs, I):
        saved = dict(SUMMARIES)
        try:
            SUMMARIES["btc_hd_wallet.helper.encode_base58"] = s_encode_base58
            SUMMARIES["btc_hd_wallet.helper.decode_base58"] = s_decode_base58
            SUMMARIES.pop("btc_hd_wallet.helper.encode_base58_checksum", None)
            SUMMARIES.pop("btc_hd_wallet.helper.decode_base58_checksum", None)
            return ctx.call_value(f, args, kwargs)
        finally:
            SUMMARIES.clear()
            SUMMARIES.update(saved)


@contract
class EncodeBase58Checksum(_WithSeqSummaries):
    """C10: encode_base58_checksum(d) = encode_base58(d ++ hash256(d)[:4])"""
    target = "btc_hd_wallet.helper.encode_base58_checksum"
    props = ("C10",)

    def inputs(self, B):
        if B.concrete:
            raise Undecided("covered concretely by the bounded differential check")
        d = ZSeq.sym("data", "bytes")
        return [d], {}, NS(d=d)

    def post(self, c, I, out):
        yield "ensures.returns", out.returned
        if out.returned:
            r = Q.coerce(out.value, "str")
            yield "ensures.payload_plus_first4_of_hash256", r is not None and r.t == ENC(z3.Concat(I.d.t, H4(I.d.t)))


@contract
class DecodeBase58Checksum(_WithSeqSummaries):
    """C10: returns the payload only when the last four decoded bytes equal the first four bytes of the
    double SHA-256 of that payload; raises for every other string (bad characters, bad checksum, too short)"""
    target = "btc_hd_wallet.helper.decode_base58_checksum"
    props = ("C10",)

    def inputs(self, B):
        if B.concrete:
            raise Undecided("covered concretely by the bounded differential check")
        s = ZSeq.sym("s", "str")
        return [], dict(s=s), NS(s=s)

    def post(self, c, I, out):
        s = I.s.t
        nb = DEC(s)
        n = z3.Length(nb)
        payload = z3.SubSeq(nb, 0, z3.If(n >= 4, n - 4, 0))
        chk = z3.SubSeq(nb, z3.If(n >= 4, n - 4, 0), z3.If(n >= 4, 4, n))
        good = z3.And(DEC_OK(s), n >= 4, chk == H4(payload))
        yield "raises.iff_not_a_valid_checksummed_string", iff(out.raised, z3.Not(good))
        if out.returned:
            r = Q.coerce(out.value, "bytes")
            yield "ensures.payload", r is not None and r.t == payload
            yield "ensures.decoded_is_payload_plus_checksum", implies(True, nb == z3.Concat(payload, H4(payload)))


@contract
class B58DecodeAddr(_WithSeqSummaries):
    target = "btc_hd_wallet.helper.b58decode_addr"
    props = ("C10",)

    def inputs(self, B):
        if B.concrete:
            raise Undecided("covered concretely by the bounded differential check")
        s = ZSeq.sym("s", "str")
        return [], dict(s=s), NS(s=s)

    def post(self, c, I, out):
        s = I.s.t
        nb = DEC(s)
        n = z3.Length(nb)
        payload = z3.SubSeq(nb, 0, z3.If(n >= 4, n - 4, 0))
        chk = z3.SubSeq(nb, z3.If(n >= 4, n - 4, 0), z3.If(n >= 4, 4, n))
        good = z3.And(DEC_OK(s), n >= 4, chk == H4(payload))
        yield "raises.iff_not_a_valid_checksummed_string", iff(out.raised, z3.Not(good))
        if out.returned:
            r = Q.coerce(out.value, "bytes")
            m = z3.Length(payload)
            yield "ensures.payload_without_version_byte", r is not None and r.t == z3.SubSeq(payload, 1, z3.If(m >= 1, m - 1, 0))
