"""Shared builders and BIP32 spec helpers for the sidecar contracts."""
import z3
from pyvc import logic as L
from pyvc import prims as U
from pyvc.logic import (Rope, as_rope, is_sym, land, lor, lnot, implies, iff, eq, ite, to_be, to_le)
from pyvc.engine import Ref, HObj, HList
from pyvc.verify import NS

N = U.N
HARD = 2 ** 31


def repo():
    import btc_hd_wallet.bip32 as bip32
    import btc_hd_wallet.keys as keys
    import btc_hd_wallet.helper as helper
    import btc_hd_wallet.wallet_utils as wu
    import btc_hd_wallet.base_wallet as bw
    import btc_hd_wallet.paper_wallet as pw
    import btc_hd_wallet.bip85 as bip85
    import btc_hd_wallet.bip39 as bip39
    import btc_hd_wallet.script as script
    return NS(bip32=bip32, keys=keys, helper=helper, wu=wu, bw=bw, pw=pw, bip85=bip85, bip39=bip39,
              script=script)


def is_obj(c, v):
    from pyvc.engine import ObjView
    return isinstance(v, Ref) and isinstance(c.heap.get(v.oid), HObj)


def mk_node(B, cls, children=None, **kw):
    """a node object built by the class's OWN constructor (so the contracts do not depend on the slot
    layout); its children list is then replaced by an arbitrary symbolic list"""
    ctx = B.ctx
    n_before = len(ctx.writes)
    ref = ctx.instantiate(cls, [], kw)
    if children is not None:
        ctx.setattr(ref, "children", children)
    del ctx.writes[n_before:]
    return ref


def sym_sec33(B, name):
    """a valid 33-byte compressed SEC encoding (symbolic: any accepted encoding; concrete: the
    encoding of a real point derived from the model's value)"""
    if B.concrete:
        v = int(B.vals.get(name) or 0) if not isinstance(B.vals.get(name), str) else 0
        if hasattr(B, "rng") and name not in B.vals:
            v = B.rng.choice([1, 2, N - 1, B.rng.randrange(1, N)])
            B.vals[name] = v
        kk = (v % (N - 1)) + 1
        pt = U.ecmul(kk)
        return U.sec(pt, True), pt
    key = B.bytes(name, 33)
    ok, pt = U.sec_parse(key)
    B.assume(ok)
    return key, pt


def sym_parent(B, tag, private=True):
    """an arbitrary parent node object (only what fingerprint()/__repr__ may read)"""
    R = repo()
    if private:
        k = B.int(f"{tag}_k", 1, N)
        key = Rope([(k, 32, False)])
        cls = R.bip32.PrvKeyNode
    else:
        k = None
        key, _ = sym_sec33(B, f"{tag}_key")
        cls = R.bip32.PubKeyNode
    return mk_node(B, cls, key=key, chain_code=B.bytes(f"{tag}_cc", 32), depth=B.int(f"{tag}_depth", 0, 255),
                   index=B.int(f"{tag}_index", 0, 2 ** 32), testnet=B.bool(f"{tag}_testnet"), parent=None,
                   parent_fingerprint=None, children=B.list_sym(f"{tag}_children")), k


def sym_prv_node(B, tag="self", with_parent=True, depth_hi=256):
    """a well-formed PrvKeyNode: key is 32 bytes or 00||32 bytes with scalar in [1, n-1]"""
    R = repo()
    k = B.int(f"{tag}_k", 1, N)
    form = B.case(f"{tag}_keyform", 2)
    key = Rope([(k, 32, False)]) if form == 0 else Rope([(0, 1, False), (k, 32, False)])
    cc = B.bytes(f"{tag}_cc", 32)
    depth = B.int(f"{tag}_depth", 0, depth_hi)
    index = B.int(f"{tag}_index", 0, 2 ** 32)
    testnet = B.bool(f"{tag}_testnet")
    parent = None
    pk = None
    ppf = None
    if with_parent:
        c = B.case(f"{tag}_parentform", 3)
        if c == 1:
            parent, pk = sym_parent(B, tag + "_par", True)
        elif c == 2:
            ppf = B.bytes(f"{tag}_ppf", 4)
    children = B.list_sym(f"{tag}_children")
    ref = mk_node(B, R.bip32.PrvKeyNode, key=key, chain_code=cc, depth=depth, index=index, testnet=testnet,
                  parent=parent, parent_fingerprint=ppf, children=children)
    return ref, NS(ref=ref, k=k, key=key, cc=cc, depth=depth, index=index, testnet=testnet, parent=parent,
                   parent_k=pk, ppf=ppf, children=children, keyform=form, private=True)


def sym_pub_node(B, tag="self", with_parent=True, depth_hi=256):
    """a well-formed PubKeyNode: key is a valid 33-byte compressed SEC encoding"""
    R = repo()
    key, pt = sym_sec33(B, f"{tag}_key")
    cc = B.bytes(f"{tag}_cc", 32)
    depth = B.int(f"{tag}_depth", 0, depth_hi)
    index = B.int(f"{tag}_index", 0, 2 ** 32)
    testnet = B.bool(f"{tag}_testnet")
    parent = None
    ppf = None
    if with_parent:
        c = B.case(f"{tag}_parentform", 3)
        if c == 1:
            parent, _ = sym_parent(B, tag + "_par", False)
        elif c == 2:
            ppf = B.bytes(f"{tag}_ppf", 4)
    children = B.list_sym(f"{tag}_children")
    ref = mk_node(B, R.bip32.PubKeyNode, key=key, chain_code=cc, depth=depth, index=index, testnet=testnet,
                  parent=parent, parent_fingerprint=ppf, children=children)
    return ref, NS(ref=ref, k=None, key=key, pt=pt, cc=cc, depth=depth, index=index, testnet=testnet,
                   parent=parent, ppf=ppf, children=children, private=False)


# ---------------------------------------------------------------------------- BIP32 spec (from the BIP text)
def ser32(i):
    return to_be(i, 4)


def ser256(k):
    return to_be(k, 32)


def serP(pt):
    return U.sec(pt, True)


def spec_ckd_priv(k, cc, index):
    """BIP32 CKDpriv -> (invalid?, child scalar, child chain code, IL)"""
    if_h = index >= HARD
    data_h = Rope.of(b"\x00") + ser256(k) + ser32(index)
    data_n = serP(U.ecmul(k)) + ser32(index)
    Hh = U.hmac512(cc, data_h)
    Hn = U.hmac512(cc, data_n)
    return if_h, (data_h, Hh), (data_n, Hn)


def spec_prv_ckd_terms(k, cc, idx):
    """BIP32 CKDpriv from the BIP text: -> (IL, IR rope, ki)"""
    from pyvc.logic import seg
    hardened = idx >= HARD
    data_h = Rope.of(b"\x00") + ser256(k) + seg(idx, 4)
    data_n = serP(U.ecmul(k)) + seg(idx, 4)
    Hh = U.hmac512(cc, data_h)
    Hn = U.hmac512(cc, data_n)
    IL = ite(hardened, Hh.slice(0, 32).be(), Hn.slice(0, 32).be())
    IRv = ite(hardened, Hh.slice(32, 64).be(), Hn.slice(32, 64).be())
    from pyvc.logic import define, sink
    ki = define("ki", (IL + k) % N)
    if is_sym(ki):
        sink().add(z3.And(ki >= 0, ki < N))
    return IL, seg(IRv, 32), ki


def spec_pub_ckd_terms(key, pt, cc, idx):
    """BIP32 CKDpub: -> (IL, IR rope, Ki point)"""
    from pyvc.logic import seg
    data = as_rope(key) + seg(idx, 4)
    H = U.hmac512(cc, data)
    IL = H.slice(0, 32).be()
    IR = H.slice(32, 64)
    Ki = U.ptadd(U.ecmul(IL), pt)
    return IL, IR, Ki


def fingerprint_of_point(pt):
    return U.hash160(serP(pt)).slice(0, 4)


def field(ctx, ref, name):
    return ctx.deref(ref).fields[name]
