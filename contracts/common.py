"""Shared builders and BIP32 spec helpers for the sidecar contracts."""
import z3
from pyvc import logic as L
from pyvc import prims as U
from pyvc.logic import (Rope, as_rope, is_sym, land, lor, lnot, implies, iff, eq, ite, to_be, to_le)
from pyvc.engine import Ref, HObj, HList
from pyvc.verify import NS

N = U.N
HARD = 2 ** 31


def repo():
    import btc_hd_wallet.bip32 as bip32
    import btc_hd_wallet.keys as keys
    import btc_hd_wallet.helper as helper
    import btc_hd_wallet.wallet_utils as wu
    import btc_hd_wallet.base_wallet as bw
    import btc_hd_wallet.paper_wallet as pw
    import btc_hd_wallet.bip85 as bip85
    import btc_hd_wallet.bip39 as bip39
    import btc_hd_wallet.script as script
    return NS(bip32=bip32, keys=keys, helper=helper, wu=wu, bw=bw, pw=pw, bip85=bip85, bip39=bip39,
              script=script)


def is_obj(c, v):
    from pyvc.engine import ObjView
    return isinstance(v, Ref) and isinstance(c.heap.get(v.oid), HObj)


def mk_node(B, cls, children=None, **kw):
    """a node object built by the class's OWN constructor (so the contracts do not depend on the slot
    layout); its children list is then replaced by an arbitrary symbolic list"""
    ctx = B.ctx
    n_before = len(ctx.writes)
    pv = kw.pop("parsed_version", None)
    ref = ctx.instantiate(cls, [], kw)
    if children is not None:
        ctx.setattr(ref, "children", children)
    if pv is not None:
        ctx.setattr(ref, "parsed_version", pv)       # what _parse does after construction
    del ctx.writes[n_before:]
    return ref


_FIELD_READ = {}


def field_is_read(name, allowed=("btc_hd_wallet.base_wallet.BaseWallet.from_extended_key",)):
    """does any repository function READ attribute `name` (or mention it as a string outside __slots__),
    apart from the `allowed` functions?  Decided on the current source of every run.  A field that is never
    read cannot influence any result, so the input builders need not split on it."""
    key = (name, allowed)
    if key in _FIELD_READ:
        return _FIELD_READ[key]
    import ast as _ast, os as _os, glob as _glob
    root = _os.path.join(_os.environ.get("VERIF_REPO", "/repo"), "btc_hd_wallet")
    hit = False
    for fn in sorted(_glob.glob(_os.path.join(root, "*.py"))):
        mod = "btc_hd_wallet." + _os.path.basename(fn)[:-3]
        tree = _ast.parse(open(fn).read())

        def visit(node, qn):
            nonlocal hit
            for ch in _ast.iter_child_nodes(node):
                q = qn
                if isinstance(ch, (_ast.FunctionDef, _ast.ClassDef, _ast.AsyncFunctionDef)):
                    q = qn + "." + ch.name
                if isinstance(ch, _ast.Assign) and any(isinstance(t, _ast.Name) and t.id == "__slots__" for t in ch.targets):
                    continue
                if isinstance(ch, _ast.Attribute) and ch.attr == name and isinstance(ch.ctx, _ast.Load) and q not in allowed:
                    hit = True
                if isinstance(ch, _ast.Constant) and ch.value == name and q not in allowed:
                    hit = True
                if isinstance(ch, _ast.Call) and isinstance(ch.func, _ast.Name) and ch.func.id in ("getattr", "vars", "dir") and q not in allowed:
                    hit = True          # reflective access: assume it may read anything
                visit(ch, q)
        visit(tree, mod)
    _FIELD_READ[key] = hit
    return hit


def sym_parsed_version(B, tag):
    """parsed_version of a node: None (built in code) or any 32-bit value (set by _parse).  Split only when the
    current source reads the field somewhere (see field_is_read)."""
    if not field_is_read("parsed_version"):
        return None
    if B.case(f"{tag}_parsed", 2):
        return B.int(f"{tag}_parsedver", 0, 2 ** 32)
    return None


def sym_sec33(B, name):
    """a valid 33-byte compressed SEC encoding (symbolic: any accepted encoding; concrete: the
    encoding of a real point derived from the model's value)"""
    if B.concrete:
        v = int(B.vals.get(name) or 0) if not isinstance(B.vals.get(name), str) else 0
        if hasattr(B, "rng") and name not in B.vals:
            v = B.rng.choice([1, 2, N - 1, B.rng.randrange(1, N)])
            B.vals[name] = v
        kk = (v % (N - 1)) + 1
        pt = U.ecmul(kk)
        return U.sec(pt, True), pt
    key = B.bytes(name, 33)
    ok, pt = U.sec_parse(key)
    B.assume(ok)
    return key, pt


def sym_parent(B, tag, private=True):
    """an arbitrary parent node object (only what fingerprint()/__repr__ may read)"""
    R = repo()
    if private:
        k = B.int(f"{tag}_k", 1, N)
        key = Rope([(k, 32, False)])
        cls = R.bip32.PrvKeyNode
    else:
        k = None
        key, _ = sym_sec33(B, f"{tag}_key")
        cls = R.bip32.PubKeyNode
    return mk_node(B, cls, key=key, chain_code=B.bytes(f"{tag}_cc", 32), depth=B.int(f"{tag}_depth", 0, 255),
                   index=B.int(f"{tag}_index", 0, 2 ** 32), testnet=B.bool(f"{tag}_testnet"), parent=None,
                   parent_fingerprint=None, children=B.list_sym(f"{tag}_children")), k


def sym_prv_node(B, tag="self", with_parent=True, depth_hi=256):
    """a well-formed PrvKeyNode: key is 32 bytes or 00||32 bytes with scalar in [1, n-1]"""
    R = repo()
    k = B.int(f"{tag}_k", 1, N)
    form = B.case(f"{tag}_keyform", 2)
    key = Rope([(k, 32, False)]) if form == 0 else Rope([(0, 1, False), (k, 32, False)])
    cc = B.bytes(f"{tag}_cc", 32)
    depth = B.int(f"{tag}_depth", 0, depth_hi)
    index = B.int(f"{tag}_index", 0, 2 ** 32)
    testnet = B.bool(f"{tag}_testnet")
    parent = None
    pk = None
    ppf = None
    if with_parent:
        c = B.case(f"{tag}_parentform", 3)
        if c == 1:
            parent, pk = sym_parent(B, tag + "_par", True)
        elif c == 2:
            ppf = B.bytes(f"{tag}_ppf", 4)
    children = B.list_sym(f"{tag}_children")
    pv = sym_parsed_version(B, tag)
    ref = mk_node(B, R.bip32.PrvKeyNode, key=key, chain_code=cc, depth=depth, index=index, testnet=testnet,
                  parent=parent, parent_fingerprint=ppf, children=children, parsed_version=pv)
    return ref, NS(ref=ref, k=k, key=key, cc=cc, depth=depth, index=index, testnet=testnet, parent=parent,
                   parent_k=pk, ppf=ppf, children=children, keyform=form, private=True)


def sym_pub_node(B, tag="self", with_parent=True, depth_hi=256):
    """a well-formed PubKeyNode: key is a valid 33-byte compressed SEC encoding"""
    R = repo()
    key, pt = sym_sec33(B, f"{tag}_key")
    cc = B.bytes(f"{tag}_cc", 32)
    depth = B.int(f"{tag}_depth", 0, depth_hi)
    index = B.int(f"{tag}_index", 0, 2 ** 32)
    testnet = B.bool(f"{tag}_testnet")
    parent = None
    ppf = None
    if with_parent:
        c = B.case(f"{tag}_parentform", 3)
        if c == 1:
            parent, _ = sym_parent(B, tag + "_par", False)
        elif c == 2:
            ppf = B.bytes(f"{tag}_ppf", 4)
    children = B.list_sym(f"{tag}_children")
    pv = sym_parsed_version(B, tag)
    ref = mk_node(B, R.bip32.PubKeyNode, key=key, chain_code=cc, depth=depth, index=index, testnet=testnet,
                  parent=parent, parent_fingerprint=ppf, children=children, parsed_version=pv)
    return ref, NS(ref=ref, k=None, key=key, pt=pt, cc=cc, depth=depth, index=index, testnet=testnet,
                   parent=parent, ppf=ppf, children=children, private=False)


# ---------------------------------------------------------------------------- BIP32 spec (from the BIP text)
def ser32(i):
    return to_be(i, 4)


def ser256(k):
    return to_be(k, 32)


def serP(pt):
    return U.sec(pt, True)


def spec_ckd_priv(k, cc, index):
    """BIP32 CKDpriv -> (invalid?, child scalar, child chain code, IL)"""
    if_h = index >= HARD
    data_h = Rope.of(b"\x00") + ser256(k) + ser32(index)
    data_n = serP(U.ecmul(k)) + ser32(index)
    Hh = U.hmac512(cc, data_h)
    Hn = U.hmac512(cc, data_n)
    return if_h, (data_h, Hh), (data_n, Hn)


def spec_prv_ckd_terms(k, cc, idx):
    """BIP32 CKDpriv from the BIP text: -> (IL, IR rope, ki)"""
    from pyvc.logic import seg
    hardened = idx >= HARD
    data_h = Rope.of(b"\x00") + ser256(k) + seg(idx, 4)
    data_n = serP(U.ecmul(k)) + seg(idx, 4)
    Hh = U.hmac512(cc, data_h)
    Hn = U.hmac512(cc, data_n)
    IL = ite(hardened, Hh.slice(0, 32).be(), Hn.slice(0, 32).be())
    IRv = ite(hardened, Hh.slice(32, 64).be(), Hn.slice(32, 64).be())
    from pyvc.logic import define, sink
    ki = define("ki", (IL + k) % N)
    if is_sym(ki):
        sink().add(z3.And(ki >= 0, ki < N))
    return IL, seg(IRv, 32), ki


def spec_pub_ckd_terms(key, pt, cc, idx):
    """BIP32 CKDpub: -> (IL, IR rope, Ki point)"""
    from pyvc.logic import seg
    data = as_rope(key) + seg(idx, 4)
    H = U.hmac512(cc, data)
    IL = H.slice(0, 32).be()
    IR = H.slice(32, 64)
    Ki = U.ptadd(U.ecmul(IL), pt)
    return IL, IR, Ki


def fingerprint_of_point(pt):
    return U.hash160(serP(pt)).slice(0, 4)


def field(ctx, ref, name):
    return ctx.deref(ref).fields[name]
