"""Sidecar contracts for btc_hd_wallet/base_wallet.py and bip39.bip39_seed_from_mnemonic
(C03 constructors, C05 addresses, C14 watch-only, C16 network, C17 by_path)."""
from . import summaries as _SUM_ALWAYS      # noqa: F401,E402  (summaries installed independent of import order)
import z3
from pyvc import prims as U
from pyvc import logic as L
from pyvc import engine as E
from pyvc.logic import (Rope, as_rope, is_sym, land, lor, lnot, implies, iff, eq, ite, seg, OBytes)
from pyvc.engine import Ref, HObj, HList, SStr, Dec, OStr, Undecided, PyRaise, mk_str, PStr, pstr_term
from pyvc.models import HexOf
from pyvc.verify import NS
from .common import is_obj, repo, HARD, N, sym_prv_node, sym_pub_node, serP, fingerprint_of_point
from . import summaries as SUM
from .c_wallet_utils import SLIP132, slip132_version
from .c_bip32 import node_point, spec_xkey_payload

CONTRACTS = []
CANARIES = []


def contract(cls):
    CONTRACTS.append(cls())
    return cls


def canary(cls):
    CANARIES.append(cls())
    return cls


def sym_text(B, name):
    """an arbitrary (Unicode) string"""
    if B.concrete:
        corpus = ["", "TREZOR", "pässwörd", "passwórd", "Åﬁ①", "パスワード", "ﾊﾟｽﾜｰﾄﾞ", " lead", "a b"]
        if hasattr(B, "rng") and name not in B.vals:
            B.vals[name] = B.rng.choice(corpus)
        v = B.vals.get(name)
        return v if isinstance(v, str) and not v.startswith("PStr!") else "légal winner thank year"
    t = z3.Const(name, PStr)
    B.vars[name] = t
    return SStr([OStr(t, name)])


def utf8(s):
    if isinstance(s, str):
        return Rope.of(s.encode("utf-8"))
    t = pstr_term(s)
    f = z3.Function("utf8", PStr, z3.IntSort())
    g = z3.Function("utf8len", PStr, z3.IntSort())
    return OBytes(f(t), g(t))


def nfkd(s):
    if isinstance(s, str):
        import unicodedata
        return unicodedata.normalize("NFKD", s)
    f = z3.Function("normalize_NFKD", PStr, PStr)
    return SStr([OStr(f(pstr_term(s)), "nfkd")])


def spec_seed(mnemonic, password):
    """BIP39: PBKDF2-HMAC-SHA512(NFKD(mnemonic), "mnemonic" + NFKD(password), 2048, 64)"""
    if isinstance(mnemonic, str) and isinstance(password, str):
        from spec import bip39 as SB
        return Rope.of(SB.seed(mnemonic, password))
    return U.pbkdf2_sha512(utf8(nfkd(mnemonic)), utf8(mk_str(["mnemonic", nfkd(password)])), 2048, 64)


@contract
class SeedFromMnemonic:
    """C03: seed = PBKDF2-HMAC-SHA512(utf8(NFKD(m)), utf8("mnemonic" + NFKD(p)), 2048 rounds, 64 bytes)"""
    target = "btc_hd_wallet.bip39.bip39_seed_from_mnemonic"
    props = ("C03",)

    def inputs(self, B):
        m, p = sym_text(B, "mnemonic"), sym_text(B, "password")
        dflt = B.case("password_defaulted", 2)
        if dflt:
            return [m], {}, NS(m=m, p="")
        return [m], dict(password=p), NS(m=m, p=p)

    def post(self, c, I, out):
        yield "ensures.returns", out.returned
        if out.returned:
            yield "ensures.pbkdf2_term", eq(out.value, spec_seed(I.m, I.p))


def master_clauses(c, wref, seed, testnet, cls):
    """the wallet's master node holds the halves of HMAC-SHA512("Bitcoin seed", seed)"""
    R = repo()
    w = c.deref(wref)
    yield "ensures.wallet_class", w.cls is cls
    m = w.fields.get("master")
    okm = isinstance(m, Ref) and is_obj(c, m) and c.deref(m).cls is R.bip32.PrvKeyNode
    yield "ensures.master_is_private_node", okm
    if not okm:
        return
    mo = c.deref(m)
    H = U.hmac512(b"Bitcoin seed", seed)
    yield "ensures.master_key_is_IL", eq(mo.fields.get("key"), H.slice(0, 32))
    yield "ensures.master_chain_code_is_IR", eq(mo.fields.get("chain_code"), H.slice(32, 64))
    yield "ensures.master_depth_index_parent", land(eq(mo.fields.get("depth"), 0), eq(mo.fields.get("index"), 0),
                                                   mo.fields.get("parent") is None,
                                                   mo.fields.get("parsed_parent_fingerprint") is None)
    yield "ensures.network_invariant", land(eq(w.fields.get("testnet"), testnet), eq(mo.fields.get("testnet"), testnet))
    b = w.fields.get("bip85")
    okb = isinstance(b, Ref) and c.deref(b).cls is R.bip85.BIP85DeterministicEntropy
    yield "ensures.bip85_bound_to_master", okb and c.deref(b).fields.get("master_node") == m
    yield "noninterference.testnet", not _mentions(mo.fields.get("key"), testnet) and not _mentions(mo.fields.get("chain_code"), testnet)


def _mentions(v, term):
    v = L.simplify_native(v)
    return isinstance(v, Rope) and is_sym(term) and v.mentions(term)


def seed_invalid(seed):
    H = U.hmac512(b"Bitcoin seed", seed)
    il = H.slice(0, 32).be()
    return lor(il == 0, il >= N)


def wallet_cls(B):
    R = repo()
    return [R.pw.PaperWallet, R.bw.BaseWallet][B.case("cls", 2)]


@contract
class FromSeedBytes:
    target = "btc_hd_wallet.base_wallet.BaseWallet.from_bip39_seed_bytes"
    props = ("C03", "C16", "C14")

    def inputs(self, B):
        cls = wallet_cls(B)
        seed = OBytes.sym("seed") if not B.concrete else Rope.of(bytes([B.int("seedbyte", 0, 256)]) * B.int("seedlen", 0, 80))
        t = B.bool("testnet")
        return [cls], dict(bip39_seed=seed, testnet=t), NS(cls=cls, seed=seed, t=t)

    def post(self, c, I, out):
        yield "raises.iff_invalid_master", iff(out.raised, seed_invalid(I.seed))
        if out.returned:
            yield from master_clauses(c, out.value, I.seed, I.t, I.cls)
            w = c.deref(out.value)
            yield "ensures.no_mnemonic", w.fields.get("mnemonic") is None and w.fields.get("password") is None


@contract
class FromSeedHex:
    target = "btc_hd_wallet.base_wallet.BaseWallet.from_bip39_seed_hex"
    props = ("C03", "C16")

    def inputs(self, B):
        cls = wallet_cls(B)
        if B.concrete:
            seed = Rope.of(bytes([B.int("seedbyte", 0, 256)]) * B.int("seedlen", 0, 80))
            hx = seed.native().hex()
        else:
            seed = OBytes.sym("seed")
            hx = HexOf(seed)
        t = B.bool("testnet")
        return [cls], dict(bip39_seed=hx, testnet=t), NS(cls=cls, seed=seed, t=t)

    def post(self, c, I, out):
        yield "raises.iff_invalid_master", iff(out.raised, seed_invalid(I.seed))
        if out.returned:
            yield from master_clauses(c, out.value, I.seed, I.t, I.cls)


@contract
class FromMnemonic:
    target = "btc_hd_wallet.base_wallet.BaseWallet.from_mnemonic"
    props = ("C03", "C16", "C06")

    def inputs(self, B):
        cls = wallet_cls(B)
        m, p = sym_text(B, "mnemonic"), sym_text(B, "password")
        t = B.bool("testnet")
        return [cls], dict(mnemonic=m, password=p, testnet=t), NS(cls=cls, m=m, p=p, t=t)

    def post(self, c, I, out):
        seed = spec_seed(I.m, I.p)
        yield "raises.iff_invalid_master", iff(out.raised, seed_invalid(seed))
        if out.returned:
            yield from master_clauses(c, out.value, seed, I.t, I.cls)
            w = c.deref(out.value)
            yield "ensures.mnemonic_echoed", eq(w.fields.get("mnemonic"), I.m)
            yield "ensures.password_echoed", eq(w.fields.get("password"), I.p)


@contract
class FromEntropyHex:
    """C03/C04: the entropy route builds the mnemonic that encodes the entropy and continues like from_mnemonic"""
    target = "btc_hd_wallet.base_wallet.BaseWallet.from_entropy_hex"
    props = ("C03", "C04", "C16")

    def inputs(self, B):
        cls = wallet_cls(B)
        n = [16, 20, 24, 28, 32, 0, 4, 15, 17, 31, 33, 64][B.case("entropy_bytes", 12)]
        ent = B.bytes("entropy", n)
        hx = E.HexStr(as_rope(ent)) if not B.concrete else as_rope(ent).native().hex()
        p = sym_text(B, "password")
        t = B.bool("testnet")
        return [cls], dict(entropy_hex=hx, password=p, testnet=t), NS(cls=cls, n=n, ent=ent, p=p, t=t)

    def post(self, c, I, out):
        if I.n not in (16, 20, 24, 28, 32):
            yield "raises.entropy_size_rejected", out.raised
            return
        m = SUM.mnemonic_term(I.ent)
        seed = spec_seed(m, I.p)
        yield "raises.iff_invalid_master", iff(out.raised, seed_invalid(seed))
        if out.returned:
            yield from master_clauses(c, out.value, seed, I.t, I.cls)
            w = c.deref(out.value)
            yield "ensures.mnemonic_encodes_entropy", eq(w.fields.get("mnemonic"), m)
            yield "ensures.password_echoed", eq(w.fields.get("password"), I.p)


def payload78(B):
    B.hint("version", list(SLIP132))
    B.hint("depth", [0, 1, 127, 128, 129, 254, 255])
    ver = B.int("version", 0, 2 ** 32)
    depth = B.int("depth", 0, 256)
    fp = B.bytes("fp", 4)
    index = B.int("index", 0, 2 ** 32)
    cc = B.bytes("cc", 32)
    key = B.bytes("keydata", 33)
    pl = seg(ver, 4) + seg(depth, 1) + as_rope(fp) + seg(index, 4) + as_rope(cc) + as_rope(key)
    return pl, NS(ver=ver, depth=depth, fp=fp, index=index, cc=cc, key=key)


@contract
class FromExtendedKey:
    """C07/C14/C16: a wallet built from an extended key takes key type and network from the version
    prefix alone; unknown versions are refused; public versions give a watch-only wallet without BIP85"""
    target = "btc_hd_wallet.base_wallet.BaseWallet.from_extended_key"
    props = ("C07", "C14", "C16", "C03")

    def inputs(self, B):
        cls = wallet_cls(B)
        pl, f = payload78(B)
        xk = SUM.b58chk(pl)
        return [cls], dict(extended_key=xk), NS(cls=cls, f=f, pl=pl)

    def post(self, c, I, out):
        R = repo()
        f = I.f
        known = lor(*[f.ver == k for k in SLIP132])
        yield "raises.iff_unknown_version", iff(out.raised, lnot(known))
        if out.returned:
            w = c.deref(out.value)
            m = w.fields.get("master")
            mo = c.deref(m)
            yield "ensures.wallet_class", w.cls is I.cls
            for k, (prv, b, t) in SLIP132.items():
                yield f"ensures.type_and_network[{k:08x}]", implies(f.ver == k, land(
                    mo.cls is (R.bip32.PrvKeyNode if prv else R.bip32.PubKeyNode),
                    eq(w.fields.get("testnet"), t), eq(mo.fields.get("testnet"), t),
                    (w.fields.get("bip85") is None) == (not prv)))
            yield "ensures.master_fields", land(eq(mo.fields.get("key"), f.key), eq(mo.fields.get("chain_code"), f.cc),
                                                eq(mo.fields.get("depth"), f.depth), eq(mo.fields.get("index"), f.index),
                                                eq(mo.fields.get("parsed_parent_fingerprint"), f.fp),
                                                mo.fields.get("parent") is None)
            yield "ensures.no_mnemonic", w.fields.get("mnemonic") is None and w.fields.get("password") is None


# ------------------------------------------------------------------------------------ wallets as inputs
def sym_wallet(B, private=None, cls=None, tag="w", master_depth_hi=250):
    R = repo()
    if private is None:
        private = bool(B.case(f"{tag}_private", 2))
    if cls is None:
        cls = R.pw.PaperWallet
    mk = sym_prv_node if private else sym_pub_node
    mref, mn = mk(B, f"{tag}_master", with_parent=False, depth_hi=master_depth_hi)
    t = mn.testnet
    bip85 = B.obj(R.bip85.BIP85DeterministicEntropy, master_node=mref, testnet=t) if private else None
    w = B.obj(cls, master=mref, testnet=t, mnemonic=None, password=None, bip85=bip85)
    return w, NS(ref=w, master=mn, testnet=t, private=private, cls=cls)


def spec_address(kind, pt, testnet):
    """BIP13/16/141/173 address of the given kind for public point pt"""
    h = U.hash160(serP(pt))
    if kind == "p2pkh":
        return SUM.b58chk(seg(ite(testnet, 0x6f, 0x00), 1) + h)
    if kind == "p2wpkh":
        return SUM.segwit_addr(testnet, 0, h)
    if kind == "p2sh_p2wpkh":
        redeem = Rope.of(b"\x00\x14") + h
        return SUM.b58chk(seg(ite(testnet, 0xc4, 0x05), 1) + U.hash160(redeem))
    wscript = Rope.of(b"\x51\x21") + serP(pt) + Rope.of(b"\x51\xae")
    h256 = U.sha256(wscript)
    if kind == "p2wsh":
        return SUM.segwit_addr(testnet, 0, h256)
    if kind == "p2sh_p2wsh":
        redeem = Rope.of(b"\x00\x20") + h256
        return SUM.b58chk(seg(ite(testnet, 0xc4, 0x05), 1) + U.hash160(redeem))
    raise KeyError(kind)


ADDRESS_KINDS = ["p2pkh", "p2wpkh", "p2sh_p2wpkh", "p2wsh", "p2sh_p2wsh"]


def mk_address_contracts():
    for kind in ADDRESS_KINDS:
        class Addr:
            """C05/C14/C16: the address is the standard encoding of the standard script of the node's
            compressed public key on the WALLET's network; only public data of the node is used"""
            target = f"btc_hd_wallet.base_wallet.BaseWallet.{kind}_address"
            props = ("C05", "C14", "C16", "C06")
            kind_ = kind

            def inputs(self, B):
                w, wn = sym_wallet(B)
                private_node = bool(B.case("node_private", 2))
                nref, nn = (sym_prv_node if private_node else sym_pub_node)(B, "node", with_parent=False)
                return [w, nref], {}, NS(w=wn, n=nn)

            def post(self, c, I, out):
                yield "ensures.returns", out.returned
                if out.returned:
                    yield "ensures.standard_address", eq(out.value, spec_address(self.kind_, node_point(I.n), I.w.testnet))
        Addr.__name__ = "Addr_" + kind
        CONTRACTS.append(Addr())


mk_address_contracts()


@contract
class WatchOnly:
    target = "btc_hd_wallet.base_wallet.BaseWallet.watch_only"
    props = ("C14",)

    def inputs(self, B):
        w, wn = sym_wallet(B)
        return [w], {}, NS(w=wn)

    def post(self, c, I, out):
        yield "ensures.iff_public_master", out.returned and out.value is (not I.w.private)


@contract
class WalletInit:
    """C14: BIP85 is offered only by wallets that hold a private master node"""
    target = "btc_hd_wallet.base_wallet.BaseWallet.__init__"
    props = ("C14", "C16")

    def run(self, ctx, f, args, kwargs, I):
        return ctx.call_value(I.cls, args, kwargs)

    def run_real(self, f, rargs, rkw, I):
        return I.cls(*rargs, **rkw)

    def inputs(self, B):
        R = repo()
        cls = wallet_cls(B)
        private = bool(B.case("private", 2))
        mref, mn = (sym_prv_node if private else sym_pub_node)(B, "master", with_parent=False)
        t = B.bool("testnet")
        return [], dict(master=mref, testnet=t), NS(cls=cls, private=private, mref=mref, t=t)

    def post(self, c, I, out):
        R = repo()
        yield "ensures.returns", out.returned
        if out.returned:
            w = c.deref(out.value)
            yield "ensures.fields", land(w.fields.get("master") == I.mref, eq(w.fields.get("testnet"), I.t),
                                         w.fields.get("mnemonic") is None, w.fields.get("password") is None)
            b = w.fields.get("bip85")
            if I.private:
                yield "ensures.bip85_for_private", isinstance(b, Ref) and c.deref(b).fields.get("master_node") == I.mref
            else:
                yield "ensures.no_bip85_for_watch_only", b is None


@contract
class NodeExtendedPrivateKey:
    """C14: a watch-only node never yields an extended private key"""
    target = "btc_hd_wallet.base_wallet.BaseWallet.node_extended_private_key"
    props = ("C14",)

    def inputs(self, B):
        w, wn = sym_wallet(B, private=False)
        nref, nn = sym_pub_node(B, "node", with_parent=False)
        return [w], dict(node=nref), NS()

    def post(self, c, I, out):
        yield "raises.watch_only", out.raised


# ------------------------------------------------------------------------------------------ C08 / C03: fresh wallets
from . import c_bip39 as CB39      # noqa: E402


class _NewWallet:
    """C08/C03: a new wallet of N words draws ENT = 32N/3 bits exactly once from the OS source over the full
    range, its mnemonic encodes exactly the drawn integer, and it continues like from_mnemonic"""
    props = ("C08", "C03")
    words = 24
    via = "new_wallet"
    opts = dict(no_summary={"btc_hd_wallet.bip39.mnemonic_from_entropy"})      # inlined: the words must be visible

    @property
    def target(self):
        return f"btc_hd_wallet.base_wallet.BaseWallet.{self.via}"

    def run_real(self, f, rargs, rkw, I):
        import os
        import random
        calls = []
        real = os.urandom

        def spy(n):
            calls.append(n)
            return real(n)
        os.urandom = spy
        random._urandom = spy
        try:
            return f(*rargs, **rkw)
        finally:
            os.urandom = real
            random._urandom = real
            I.urandom_calls = calls

    def inputs(self, B):
        cls = wallet_cls(B)
        p = sym_text(B, "password")
        t = B.bool("testnet")
        bits = {12: 128, 15: 160, 18: 192, 21: 224, 24: 256}.get(self.words)
        if self.via == "new_wallet":
            kw = dict(mnemonic_length=self.words, password=p, testnet=t)
        else:
            kw = dict(entropy_bits=bits if bits else self.words, password=p, testnet=t)
        return [cls], kw, NS(cls=cls, p=p, t=t, bits=bits)

    def post(self, c, I, out):
        if I.bits is None:
            yield "raises.unknown_size", out.raised
            yield "ensures.nothing_drawn", not [e for e in c.effects if e[0] == "draw"]
            return
        bits = I.bits
        if hasattr(I, "urandom_calls") and out.raised:
            # concrete run under a chosen-output PRF: an invalid master key is reported (C18), nothing to check here
            yield "raises.is_invalid_key_error", out.exc_cls.__name__ == "InvalidKeyError"
            return
        if out.returned and isinstance(c.deref(out.value).fields.get("mnemonic"), str):
            from spec import bip39 as SB
            m = c.deref(out.value).fields.get("mnemonic")
            calls = getattr(I, "urandom_calls", [])
            yield "ensures.os_source_asked_for_ENT_bits", len(calls) >= 1 and sum(8 * n for n in calls) >= bits
            yield "ensures.mnemonic_has_ENT_bits", len(SB.entropy_from_mnemonic(m)) * 8 == bits
            return
        draws = [e[1] for e in c.effects if e[0] == "draw"]
        yield "ensures.exactly_one_draw", len(draws) == 1
        if len(draws) != 1:
            return
        source, cls, lo, hi, r, api = draws[0]
        yield "ensures.source_is_SystemRandom", source == "os.urandom" and cls == "SystemRandom"
        yield "ensures.full_range_0_to_2_ENT", lo == 0 and hi == 2 ** bits
        m, idxs = CB39.spec_sentence(CB39.entropy_of_draw(r, bits // 8, api))
        seed = spec_seed(m, I.p)
        yield "raises.iff_invalid_master", iff(out.raised, seed_invalid(seed))
        if out.returned:
            yield from master_clauses(c, out.value, seed, I.t, I.cls)
            w = c.deref(out.value)
            got = w.fields.get("mnemonic")
            words = [p for p in got.parts if isinstance(p, OStr)] if isinstance(got, SStr) else []
            yield "ensures.mnemonic_word_count", len(words) == bits * 3 // 32
            for j, (wj, ij) in enumerate(zip(words, idxs)):
                yield f"ensures.mnemonic_word[{j}]_encodes_the_drawn_integer", eq(wj.inj[2], ij) if wj.inj else False
            yield "ensures.password_echoed", eq(w.fields.get("password"), I.p)


for _via in ("new_wallet", "from_entropy_bits"):
    for _w in (12, 15, 18, 21, 24, 0, 13, 25):
        CONTRACTS.append(type(f"Fresh_{_via}_{_w}", (_NewWallet,), dict(words=_w, via=_via))())


# ------------------------------------------------------------------------------------------ C13: address generator
from .common import spec_prv_ckd_terms, spec_pub_ckd_terms      # noqa: E402
from pyvc.engine import Dec                                      # noqa: E402


class GenLoop:
    """`while True: child = node.ckd(index); adder = yield str(child), addr(child); index += adder or 1`
    step relation checked for every index: yields the child AT index; index' = index + (sent or 1)"""
    name = "address_generator.loop"

    def __init__(self, owner):
        self.owner = owner

    def at_entry(self, ctx, frame, it):
        ctx.side_check("address_generator.first_index_is_0", eq(frame.env["index"], 0))
        ctx.ghost = getattr(ctx, "ghost", {})
        g = NS()
        ctx.ghost[self.name] = g
        return g

    def invariant(self, ctx, frame, g):
        return frame.env["index"] >= 0

    def havoc(self, ctx, frame, g):
        k = ctx.loop_counter
        g.index = z3.Int(f"gen_index!{k}")
        frame.env["index"] = g.index
        frame.env.pop("child", None)
        frame.env.pop("adder", None)
        g.yields = []
        ctx.opts["_gen_ghost"] = g

    def check_step(self, ctx, frame, g, I):
        pass


def _yield_hook(frame, value):
    ctx = frame.ctx
    g = ctx.opts.get("_gen_ghost")
    sent = ctx.opts["_sent"]
    g.yields.append(value)
    return sent


class _AddressGenerator:
    """C13: the address generator yields (path, address) of consecutive children, starting at index 0, and
    skips ahead by the number sent to it; each yielded pair belongs to the child AT the current index"""
    target = "btc_hd_wallet.base_wallet.BaseWallet.address_generator"
    props = ("C13",)
    private = True

    def __init__(self):
        self.loops = {0: GenLoop(self)}
        self.opts = dict(yield_hook=_yield_hook)

    def inputs(self, B):
        if B.concrete:
            raise Undecided("generator step contract has no single-call replay (covered by the bounded history check)")
        w, wn = sym_wallet(B, private=self.private)
        mk = sym_prv_node if self.private else sym_pub_node
        nref, nn = mk(B, "node", with_parent=False, depth_hi=200)
        sc = B.case("sent", 3)
        sent = [None, 0, B.int("sent_value", 1, 2 ** 31)][sc]
        B.ctx.opts["_sent"] = sent
        return [w, nref], {}, NS(w=wn, n=nn, sent=sent)

    def modifies(self, c, I):
        return {(I.n.children.oid, "items")}

    def post(self, c, I, out):
        # reached only through PathCut'ed step paths; obligations are produced by post_step below
        return ()


def _gen_step_check(self, ctx, frame, g):
    """called after the loop body (via variant hook): relation between the step's observations"""
    return None


class GenLoopChecked(GenLoop):
    variant = None

    def after_body(self, ctx, frame, g):
        I = self.owner._I
        n = I.n
        y = g.yields[0]
        ctx.side_check("address_generator.one_yield_per_step", len(g.yields) == 1)
        if n.private:
            IL, IR, ki = spec_prv_ckd_terms(n.k, n.cc, g.index)
            pt = U.ecmul(ki)
        else:
            IL, IR, Ki = spec_pub_ckd_terms(n.key, n.pt, n.cc, g.index)
            pt = Ki
        mark = "m" if n.private else "M"
        okshape = isinstance(y, tuple) and len(y) == 2
        ctx.side_check("address_generator.yields_pair", okshape)
        if okshape:
            if not ctx.feasible(g.index >= HARD):
                idx_txt = [Dec(g.index)]
            elif not ctx.feasible(g.index < HARD):
                idx_txt = [Dec(g.index - HARD), "'"]
            else:
                idx_txt = None
            ctx.side_check("address_generator.path_of_child_at_index", eq(y[0], mk_str([mark + "/"] + idx_txt)) if idx_txt else False)
            ctx.side_check("address_generator.address_of_child_at_index", eq(y[1], spec_address("p2wpkh", pt, I.w.testnet)))
        sent = I.sent
        step = 1 if (sent is None or (not is_sym(sent) and sent == 0)) else sent
        ctx.side_check("address_generator.next_index_is_index_plus_sent_or_1", eq(frame.env["index"], g.index + step))
        return None


class AddressGeneratorPrv(_AddressGenerator):
    private = True

    def __init__(self):
        super().__init__()
        self.loops = {0: GenLoopChecked(self)}

    def inputs(self, B):
        r = super().inputs(B)
        self._I = r[2]
        return r


class AddressGeneratorPub(AddressGeneratorPrv):
    private = False


CONTRACTS.append(AddressGeneratorPrv())
CONTRACTS.append(AddressGeneratorPub())


class CanarySaltWithSpace(SeedFromMnemonic):
    """must FAIL: spec with salt prefix 'mnemonic ' """
    props = ("C03",)

    def post(self, c, I, out):
        if out.returned:
            want = U.pbkdf2_sha512(utf8(nfkd(I.m)), utf8(mk_str(["mnemonic ", nfkd(I.p)])), 2048, 64)
            yield "canary.salt", eq(out.value, want)


class CanaryWatchOnlyHasBip85(WalletInit):
    """must FAIL: spec demanding BIP85 for every wallet"""
    props = ("C14",)

    def post(self, c, I, out):
        if out.returned:
            yield "canary.bip85_always", c.deref(out.value).fields.get("bip85") is not None


class CanaryFreshDrawsOneBitLess(_NewWallet):
    """must FAIL: spec expecting ENT - 1 bits"""
    props = ("C08",)
    words, via = 12, "new_wallet"

    def post(self, c, I, out):
        draws = [e[1] for e in c.effects if e[0] == "draw"]
        if draws:
            yield "canary.range", draws[0][3] == 2 ** (I.bits - 1)


CANARIES += [CanarySaltWithSpace(), CanaryWatchOnlyHasBip85(), CanaryFreshDrawsOneBitLess()]
