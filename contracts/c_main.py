"""Sidecar contracts for btc_hd_wallet/__main__.py (C15 paranoia filter, C20 validators and main wiring)."""
from . import summaries as _SUM_ALWAYS      # noqa: F401,E402  (summaries installed independent of import order)
import argparse
import z3
from pyvc import logic as L
from pyvc import engine as E
from pyvc.logic import (Rope, is_sym, land, lor, lnot, implies, iff, eq, ite, SymVal, simplify_native)
from pyvc.engine import Ref, HObj, HList, HDict, SymList, Mock, Undecided, PyRaise
from pyvc.verify import NS
from .common import repo, HARD
from .c_wallet_utils import Tok
from .c_paper_wallet import Tagged

CONTRACTS = []
CANARIES = []


def contract(cls):
    CONTRACTS.append(cls())
    return cls


def main_mod():
    import btc_hd_wallet.__main__ as m
    return m


WHITELIST = ["BIP44", "BIP49", "BIP84"]
ALLKEYS = ["MASTER", "BIP85", "BIP44", "EXTRA", "BIP49", "BIP84"]


class Leaf(SymVal):
    """an opaque leaf value of the wallet dictionary (identified by where it came from)"""
    def __init__(self, origin, truthy=None):
        self.origin = origin
        self.truthy = truthy          # None: unknown (asking is UNDECIDED); True/False: stated by the contract that builds it

    def sym_truthy(self, ctx):
        if self.truthy is None:
            raise Undecided("truthiness of leaf " + self.origin)
        return self.truthy

    def __repr__(self):
        return f"Leaf({self.origin})"

    def materialize(self):
        return "leaf:" + self.origin


@contract
class ParanoiaMode:
    """C15: for an ARBITRARY input dictionary the filtered output has exactly the whitelisted sections, each
    with exactly account_extended_keys{path, pub} and groups = rows minus their last column; every leaf kept
    is the identical object of the input; nothing from MASTER, BIP85, prv or a row's last column survives"""
    target = "btc_hd_wallet.__main__.paranoia_mode"
    props = ("C15", "C20")
    max_paths = 3000

    def inputs(self, B):
        if B.concrete:
            raise Undecided("leaf provenance has no concrete replay (covered by the bounded differential of C15)")
        mask = B.case("present_sections", 64)
        rowshape = B.case("row_shape", 4)
        d = {}
        secs = {}
        for i, k in enumerate(ALLKEYS):
            if not (mask >> i) & 1:
                continue
            if k in ("MASTER", "BIP85", "EXTRA") and k != "EXTRA":
                d[k] = B.ctx.alloc(HDict({"mnemonic": Leaf(k + ".secret"), "password": Leaf(k + ".secret2")}))
                continue
            aek = B.ctx.alloc(HDict({"path": Leaf(k + ".path"), "pub": Leaf(k + ".pub"), "prv": Leaf(k + ".prv"),
                                     "note": Leaf(k + ".extra_field")}))
            if rowshape == 0:
                rows = B.ctx.new_list([])
            elif rowshape == 1:
                rows = B.ctx.new_list([B.ctx.new_list([Leaf(f"{k}.row{r}.col{cidx}") for cidx in range(4)]) for r in range(2)])
            elif rowshape == 2:
                rows = B.ctx.new_list([B.ctx.new_list([Leaf(f"{k}.row0.col{cidx}") for cidx in range(5)]),
                                       B.ctx.new_list([Leaf(f"{k}.row1.col0")])])
            elif B.concrete:
                rows = B.ctx.new_list([B.ctx.new_list([Leaf(f"{k}.rowj.col{cidx}") for cidx in range(4)])
                                       for _ in range(B.int(f"{k}_nrows", 0, 2 ** 31) % 4)])
            else:
                j = z3.Int(f"{k}_j")
                n = B.int(f"{k}_nrows", 0, 2 ** 31)
                rows = SymList(0, n, j, B.ctx.new_list([Leaf(f"{k}.rowj.col{cidx}") for cidx in range(4)]))
            d[k] = B.ctx.alloc(HDict({"account_extended_keys": aek, "groups": rows, "extra": Leaf(k + ".extra")}))
            secs[k] = (aek, rows)
        data = B.ctx.alloc(HDict(d))
        return [data], {}, NS(d=d, secs=secs, rowshape=rowshape)

    def post(self, c, I, out):
        yield "ensures.returns", out.returned
        if not out.returned:
            return
        res = c.deref(out.value).d
        expect = [k for k in I.d if k in WHITELIST]
        yield "ensures.exactly_whitelisted_sections_in_order", list(res) == expect
        for k in expect:
            if k not in res:
                continue
            sec = c.deref(res[k]).d
            yield f"ensures.{k}.exactly_two_fields", list(sec) == ["account_extended_keys", "groups"]
            aek_in, rows_in = I.secs[k]
            ain = c.deref(aek_in).d
            aout = c.deref(sec["account_extended_keys"]).d
            yield f"ensures.{k}.keys_path_pub_only", list(aout) == ["path", "pub"] and aout["path"] is ain["path"] and aout["pub"] is ain["pub"]
            g = sec["groups"]
            if I.rowshape == 3:
                if isinstance(g, Ref):
                    yield f"ensures.{k}.rows_empty_only_if_no_rows", land(len(c.deref(g).items) == 0, rows_in.hi <= 0)
                    continue
                ok = isinstance(g, SymList)
                yield f"ensures.{k}.rows_is_map", ok
                if ok:
                    rin = c.deref(rows_in.elem).items
                    rout = c.deref(g.elem).items
                    yield f"ensures.{k}.rows_same_count", land(eq(g.lo, rows_in.lo), eq(g.hi, rows_in.hi))
                    yield f"ensures.{k}.row_minus_last_column", len(rout) == len(rin) - 1 and all(a is b for a, b in zip(rout, rin))
            else:
                rows_i = c.deref(rows_in).items
                rows_o = c.deref(g).items
                okn = len(rows_o) == len(rows_i)
                yield f"ensures.{k}.rows_same_count", okn
                if okn:
                    for ri, (ro_, ri_) in enumerate(zip(rows_o, rows_i)):
                        a, b = c.deref(ro_).items, c.deref(ri_).items
                        yield f"ensures.{k}.row{ri}_minus_last_column", len(a) == len(b) - 1 and all(x is y for x, y in zip(a, b))
        # provenance: no leaf of the output stems from a secret position
        leaves = []

        def walk(v):
            if isinstance(v, Leaf):
                leaves.append(v)
            elif isinstance(v, Ref):
                o = c.deref(v)
                if isinstance(o, HDict):
                    for x in o.d.values():
                        walk(x)
                elif isinstance(o, HList):
                    for x in o.items:
                        walk(x)
            elif isinstance(v, SymList):
                walk(v.elem)
        walk(out.value)

        def secret(origin):
            if origin.startswith(("MASTER", "BIP85", "EXTRA")) or origin.endswith((".prv", ".extra", ".extra_field")):
                return True
            if ".row" in origin:
                # last column of its row
                sec, row, col = origin.split(".")
                ncols = {"row0": 5 if I.rowshape == 2 else 4, "row1": 1 if I.rowshape == 2 else 4, "rowj": 4}[row]
                return col == f"col{ncols - 1}"
            return False
        yield "ensures.no_leaf_from_a_secret_position", not any(secret(l.origin) for l in leaves)


# ------------------------------------------------------------------------------------------ validators
class _IndexValidator:
    """C20: the validator returns int(value) iff it lies in the accepted range and raises ArgumentError
    (or ValueError for non-numbers) otherwise"""
    fname = "address_index"
    lo, hi = 0, 2 ** 32 - 1
    props = ("C20",)

    @property
    def target(self):
        return f"btc_hd_wallet.__main__.{self.fname}"

    def inputs(self, B):
        t = Tok(B, "value")
        return [t], {}, NS(t=t)

    def post(self, c, I, out):
        t = I.t
        ok = land(t.ok, t.val >= self.lo, t.val < self.hi)
        yield "raises.iff_not_an_integer_in_range", iff(out.raised, lnot(ok))
        if out.returned:
            yield "ensures.value", eq(out.value, t.val)
            yield from self.extra(I, out)

    def extra(self, I, out):
        return ()


@contract
class AccountIndex(_IndexValidator):
    fname = "account_index"
    lo, hi = 0, 2 ** 31 - 1

    def extra(self, I, out):
        # accepted accounts stay hardened-representable: account + 2^31 < 2^32
        yield "ensures.account_hardened_representable", land(out.value >= 0, out.value + HARD < 2 ** 32)


@contract
class AddressIndex(_IndexValidator):
    fname = "address_index"
    lo, hi = 0, 2 ** 32 - 1
    kf_clauses = ("ensures.accepted_address_index_is_non_hardened",)

    def extra(self, I, out):
        # the property: accepted interval values lead to NON-hardened address indexes (known finding KF-C20-1)
        yield "ensures.accepted_address_index_is_non_hardened", out.value <= HARD


class StrOfLen(SymVal):
    """an arbitrary string of symbolic length (only len() and identity are understood)"""
    def __init__(self, B, name):
        self.n = B.int(name + "_len", 0, None)
        self.name = name
        if B.concrete:
            self.text = "x" * min(int(self.n), 400)
            self.n = len(self.text)

    def sym_len(self, ctx=None):
        return self.n

    def sym_type(self):
        return str

    def materialize(self):
        return self.text


def _len_validator(fname, accept, desc):
    class V:
        target = f"btc_hd_wallet.__main__.{fname}"
        props = ("C20",)
        __doc__ = f"C20: {fname} returns the value unchanged iff {desc}; ArgumentError otherwise"

        def inputs(self, B):
            s = StrOfLen(B, "value")
            return [s], {}, NS(s=s)

        def post(self, c, I, out):
            yield "raises.iff_wrong_length", iff(out.raised, lnot(accept(I.s.n)))
            if out.returned:
                yield "ensures.value_unchanged", out.value is I.s if not isinstance(out.value, str) else out.value == I.s.text
    V.__name__ = "Validator_" + fname
    return V


CONTRACTS.append(_len_validator("extended_key", lambda n: n == 111, "it has 111 characters")())
CONTRACTS.append(_len_validator("bip39_seed", lambda n: n == 128, "it has 128 characters")())
CONTRACTS.append(_len_validator("entropy_hex", lambda n: lor(*[n * 4 == b for b in (128, 160, 192, 224, 256)]),
                                "its length is 32/40/48/56/64 characters")())


class WordsStr(SymVal):
    """an arbitrary string: split(' ') yields a list of symbolic length >= 1; strip() is opaque"""
    def __init__(self, B):
        self.nwords = B.int("nparts", 1, None)
        if B.concrete:
            self.text = " ".join(["abandon"] * min(int(self.nwords), 60))
            self.nwords = len(self.text.split(" "))

    def sym_getattr(self, ctx, name):
        if name == "split":
            def split(sep=None):
                if sep != " ":
                    raise Undecided("split on another separator")
                return SymList(0, self.nwords, z3.Int("w_j"), Leaf("word"))
            return split
        if name == "strip":
            return lambda: Leaf("stripped")
        raise Undecided("WordsStr." + name)

    def materialize(self):
        return self.text


@contract
class ValidatorMnemonic:
    """C20: mnemonic() accepts exactly 12/15/18/21/24 space-separated parts and returns the stripped value"""
    target = "btc_hd_wallet.__main__.mnemonic"
    props = ("C20",)

    def inputs(self, B):
        s = WordsStr(B)
        return [s], {}, NS(s=s)

    def post(self, c, I, out):
        ok = lor(*[I.s.nwords == k for k in (12, 15, 18, 21, 24)])
        yield "raises.iff_wrong_word_count", iff(out.raised, lnot(ok))
        if out.returned:
            yield "ensures.stripped_value", (isinstance(out.value, Leaf) and out.value.origin == "stripped") or \
                (isinstance(out.value, str) and out.value == I.s.text.strip())


@contract
class ValidatorFile:
    """C20: file_() refuses a directory, an existing path and a non-writable parent directory"""
    target = "btc_hd_wallet.__main__.file_"
    props = ("C20",)

    def run(self, ctx, f, args, kwargs, I):
        import pathlib
        import os
        from pyvc import models as M
        parent = Mock("path.parent")
        p = Mock("path", attrs=dict(parent=parent), results=dict(is_dir=I.is_dir, exists=I.exists))
        saved = dict(M.NATIVE_MODELS)
        try:
            def m_path(c, a, k):
                c.effects.append(("pathlib.Path", tuple(a), {}))
                return p
            m_path.always = True

            def m_access(c, a, k):
                c.effects.append(("os.access", tuple(a), {}))
                return I.writable
            m_access.always = True

            def m_strmock(c, a, k):
                return "PARENT" if a and a[0] is parent else E.to_str(c, a[0])
            m_strmock.always = True
            M.NATIVE_MODELS[pathlib.Path] = m_path
            M.NATIVE_MODELS[os.access] = m_access
            M.NATIVE_MODELS[str] = m_strmock
            return ctx.call_value(f, args, kwargs)
        finally:
            M.NATIVE_MODELS.clear()
            M.NATIVE_MODELS.update(saved)

    def run_real(self, f, rargs, rkw, I):
        import tempfile, os, shutil
        d = tempfile.mkdtemp(prefix="vfile_")
        try:
            parent = os.path.join(d, "p")
            os.mkdir(parent)
            target = os.path.join(parent, "out.json")
            if I.is_dir:
                os.mkdir(target)
            elif I.exists:
                open(target, "w").write("x")
            if not I.writable:
                target = os.path.join(d, "missing_dir", "out.json")
            I.real_target = target
            return f(target)
        finally:
            shutil.rmtree(d, ignore_errors=True)

    def inputs(self, B):
        is_dir, exists, writable = B.bool("is_dir"), B.bool("exists"), B.bool("parent_writable")
        B.assume(implies(is_dir, exists))
        return ["some/path"], {}, NS(is_dir=is_dir, exists=exists, writable=writable)

    def post(self, c, I, out):
        ok = land(lnot(I.is_dir), lnot(I.exists), I.writable)
        yield "raises.iff_dir_or_exists_or_parent_not_writable", iff(out.raised, lnot(ok))
        if out.returned:
            yield "ensures.value_unchanged", out.value == "some/path" or out.value == getattr(I, "real_target", None)


# ------------------------------------------------------------------------------------------ main() wiring
COMMANDS = ["new", "from-master-xprv", "from-mnemonic", "from-bip39-seed", "from-entropy-hex", None]


def _named(effect, names):
    """the arguments of a recorded call by parameter name, whether they were passed positionally or by keyword"""
    _, a, k = effect
    if len(a) > len(names) or any(n in k for n in names[:len(a)]):
        return None
    d = dict(zip(names, a))
    d.update(k)
    return d


@contract
class MainWiring:
    """C20/C15: main() builds the wallet named by the sub-command from the parsed values, generates with the
    parsed account and interval, filters iff --paranoia, and emits the (filtered) data through exactly one
    channel: export_wallet(file) if --file else pprint.  No command: help + exit status 1, no wallet output.
    (argparse itself is an assumed contract L1: parse_args is summarised.)"""
    target = "btc_hd_wallet.__main__.main"
    props = ("C20", "C15")

    def run(self, ctx, f, args, kwargs, I):
        saved = dict(E.SUMMARIES)
        M = main_mod()
        fail = I.fail
        wallet = Mock("wallet", raises={"generate": RuntimeError} if fail == "generate" else
                      ({"export_wallet": OSError, "pprint": OSError} if fail == "output" else {}))
        I.wallet = wallet
        parser = Mock("parser", raises=dict(exit=SystemExit, error=SystemExit))

        def s_parse_args(c, a, k):
            c.effects.append(("parse_args", tuple(a), dict(k)))
            return (parser, I.args)

        def ctor(name):
            def s(c, a, k):
                names = {"new_wallet": ["cls", "mnemonic_length", "password", "testnet"],
                         "from_extended_key": ["cls", "extended_key"],
                         "from_mnemonic": ["cls", "mnemonic", "password", "testnet"],
                         "from_bip39_seed_hex": ["cls", "bip39_seed", "testnet"],
                         "from_entropy_hex": ["cls", "entropy_hex", "password", "testnet"]}[name]
                kw = dict(zip(names, a))
                kw.update(k)
                c.effects.append(("construct." + name, (), kw))
                if fail == "construct":
                    raise PyRaise(ValueError, "malformed secret")      # exceptional postcondition of every from_* constructor
                return wallet
            return s

        def s_paranoia(c, a, k):
            d = a[0] if a else k["data"]
            c.effects.append(("paranoia_mode", (d,), {}))
            return Mock("filtered", attrs=dict(_of=d))
        try:
            E.SUMMARIES["btc_hd_wallet.__main__.parse_args"] = s_parse_args
            E.SUMMARIES["btc_hd_wallet.__main__.paranoia_mode"] = s_paranoia
            for n in ("new_wallet", "from_extended_key", "from_mnemonic", "from_bip39_seed_hex", "from_entropy_hex"):
                E.SUMMARIES["btc_hd_wallet.base_wallet.BaseWallet." + n] = ctor(n)
            return ctx.call_value(f, args, kwargs)
        finally:
            E.SUMMARIES.clear()
            E.SUMMARIES.update(saved)

    def inputs(self, B):
        if B.concrete:
            raise Undecided("main() over summarised callees has no concrete replay (covered by the C20 process-level harness)")
        cmd = COMMANDS[B.case("command", len(COMMANDS))]
        # a --file value that passed file_ is a non-empty path ("" names the current directory and is refused)
        file = [None, Leaf("args.file", truthy=True)][B.case("file_given", 2)]
        fields = dict(command=cmd, testnet=B.bool("testnet"), paranoia=B.bool("paranoia"), account=Leaf("args.account"),
                      interval=Leaf("args.interval"), file=file, password=Leaf("args.password"),
                      mnemonic_len=Leaf("args.mnemonic_len"), master_xprv=Leaf("args.master_xprv"),
                      mnemonic=Leaf("args.mnemonic"), seed_hex=Leaf("args.seed_hex"), entropy_hex=Leaf("args.entropy_hex"))
        args = B.ctx.new_obj(argparse.Namespace, **fields)
        fail = [None, "construct", "generate", "output"][B.case("failure", 4)] if cmd is not None else None
        return [], {}, NS(args=args, f=fields, cmd=cmd, fail=fail)

    def post(self, c, I, out):
        f = I.f
        eff = c.effects
        names = [e[0] for e in eff]
        if I.cmd is None:
            yield "ensures.no_command.help_then_exit1", out.raised_a(SystemExit) and names == ["parse_args", "parser.print_help", "parser.exit"] \
                and eff[-1][2].get("status", (eff[-1][1] or [None])[0]) == 1
            return
        if I.fail is not None:
            # a failure while building, generating or writing is REPORTED: the exception reaches the interpreter
            # (exit status 1) or main exits with an explicit non-zero status; nothing is emitted afterwards
            exits = [e for e in eff if e[0] in ("parser.exit", "parser.error")]
            nonzero = bool(exits) and (exits[-1][0] == "parser.error" or
                                       (lambda st: isinstance(st, int) and not isinstance(st, bool) and st != 0)(exits[-1][2].get("status", (list(exits[-1][1]) + [0])[0])))
            want_cls = dict(construct=ValueError, generate=RuntimeError, output=OSError)[I.fail]
            yield f"raises.failure_in_{I.fail}_is_reported", (out.raised_a(want_cls) and not exits) or (out.raised_a(SystemExit) and nonzero)
            first_fail = {"construct": "construct.", "generate": "wallet.generate", "output": ("wallet.pprint", "wallet.export_wallet")}[I.fail]
            idx = [i for i, e in enumerate(eff) if e[0].startswith(first_fail)]
            yield f"ensures.no_output_after_failure_in_{I.fail}", bool(idx) and not any(e[0] in ("wallet.pprint", "wallet.export_wallet") for e in eff[idx[0] + 1:])
            return
        yield "ensures.returns", out.returned
        if not out.returned:
            return
        want = {"new": ("construct.new_wallet", dict(mnemonic_length=f["mnemonic_len"], password=f["password"], testnet=f["testnet"])),
                "from-master-xprv": ("construct.from_extended_key", dict(extended_key=f["master_xprv"])),
                "from-mnemonic": ("construct.from_mnemonic", dict(mnemonic=f["mnemonic"], password=f["password"], testnet=f["testnet"])),
                "from-bip39-seed": ("construct.from_bip39_seed_hex", dict(bip39_seed=f["seed_hex"], testnet=f["testnet"])),
                "from-entropy-hex": ("construct.from_entropy_hex", dict(entropy_hex=f["entropy_hex"], password=f["password"], testnet=f["testnet"]))}[I.cmd]
        cons = [e for e in eff if e[0].startswith("construct.")]
        okc = len(cons) == 1 and cons[0][0] == want[0]
        yield "ensures.constructor_for_command", okc
        if okc:
            kw = {k: v for k, v in cons[0][2].items() if k != "cls"}
            yield "ensures.constructor_arguments", set(kw) == set(want[1]) and all(kw[k] is want[1][k] or (is_sym(kw[k]) and kw[k].eq(want[1][k])) for k in kw)
            yield "ensures.constructor_class_is_PaperWallet", cons[0][2].get("cls") is repo().pw.PaperWallet
        gens = [e for e in eff if e[0] == "wallet.generate"]
        okg = len(gens) == 1
        yield "ensures.generate_once", okg
        if not okg:
            return
        gk = _named(gens[0], ["account", "interval"])
        yield "ensures.generate_arguments", gk is not None and set(gk) == {"account", "interval"} and gk["account"] is f["account"] and gk["interval"] is f["interval"]
        data0 = None
        # the value returned by wallet.generate(...) is the Mock created by that call
        outs = [e for e in eff if e[0] in ("wallet.pprint", "wallet.export_wallet")]
        yield "ensures.exactly_one_output_channel", len(outs) == 1
        if len(outs) != 1:
            return
        o = outs[0]
        ok_ = _named(o, ["data", "indent"] if o[0] == "wallet.pprint" else ["file_path", "indent", "data"]) or {}
        ok_.pop("indent", None)                      # layout, not content
        emitted = ok_.get("data")
        par = [e for e in eff if e[0] == "paranoia_mode"]
        paranoia_on = c.feasible(f["paranoia"]) and not c.feasible(z3.Not(f["paranoia"]))
        if paranoia_on:
            okp = len(par) == 1 and isinstance(par[0][1][0], Mock) and par[0][1][0].tag == "wallet.generate()"
            yield "ensures.paranoia.filter_applied_to_generated_data", okp
            yield "ensures.paranoia.emitted_is_filtered", isinstance(emitted, Mock) and emitted.tag == "filtered" and okp and emitted.attrs["_of"] is par[0][1][0]
        else:
            yield "ensures.no_paranoia.no_filter", len(par) == 0
            yield "ensures.no_paranoia.emitted_is_generated", isinstance(emitted, Mock) and emitted.tag == "wallet.generate()"
        if f["file"] is None:
            yield "ensures.channel.stdout_when_no_file", o[0] == "wallet.pprint" and set(ok_) == {"data"}
        else:
            yield "ensures.channel.file_when_given", o[0] == "wallet.export_wallet" and ok_.get("file_path") is f["file"] and set(ok_) == {"file_path", "data"}
        yield "ensures.order", names.index("wallet.generate") < names.index(o[0]) and names[-1] == o[0]


def _dest_ok(o):
    """no explicit dest, or the one argparse would derive from the (first long) option string anyway"""
    d = o[1].get("dest")
    if d is None:
        return True
    longs = [x for x in o[0] if x.startswith("--")] or list(o[0])
    return simplify_native(d) == longs[0].lstrip("-").replace("-", "_")


@contract
class ParseArgsWiring:
    """C20: parse_args attaches each validator to the option it validates: --account -> account_index (default 0),
    --interval -> two address_index values (default [0, 20]), -f/--file -> file_, the positional of each
    sub-command -> its own validator, --mnemonic-len limited to the BIP39 word counts, the sub-command stored
    under `command`, and it parses exactly the argument vector it was given.  (argparse itself: assumed
    contract L1 -- ArgumentParser is replaced by a recorder.)"""
    target = "btc_hd_wallet.__main__.parse_args"
    props = ("C20",)

    def run(self, ctx, f, args, kwargs, I):
        from pyvc import models as MM
        key = argparse.ArgumentParser
        old = MM.NATIVE_MODELS.get(key)

        def add_parser(c, a, k):
            return Mock("sub[%s]" % (a[0] if a else k.get("name")))

        def add_subparsers(c, a, k):
            return Mock("subparsers", results=dict(add_parser=add_parser))

        def m_parser(c, a, k):
            c.effects.append(("ArgumentParser", tuple(a), dict(k)))
            return Mock("parser", results=dict(add_subparsers=add_subparsers,
                                               parse_known_args=lambda c2, a2, k2: (Mock("parser.parse_known_args()[0]"), c2.alloc(HList([])))))
        m_parser.always = True
        try:
            MM.NATIVE_MODELS[key] = m_parser
            return ctx.call_value(f, args, kwargs)
        finally:
            if old is None:
                MM.NATIVE_MODELS.pop(key, None)
            else:
                MM.NATIVE_MODELS[key] = old

    def inputs(self, B):
        if B.concrete:
            raise Undecided("parse_args over a recorded ArgumentParser has no concrete replay (covered by the C20 process-level harness)")
        argv = Leaf("argv")
        return [argv], {}, NS(argv=argv)

    def post(self, c, I, out):
        M = main_mod()
        eff = c.effects
        yield "ensures.returns", out.returned
        if not out.returned:
            return
        v = out.value
        last = eff[-1] if eff else None
        yield "ensures.parses_exactly_the_given_vector_last", last is not None and last[0] == "parser.parse_args" \
            and (list(last[1]) + [last[2].get("args")])[0] is I.argv and len(last[1]) + len(last[2]) == 1
        yield "ensures.returns_parser_and_namespace", isinstance(v, tuple) and len(v) == 2 and isinstance(v[0], Mock) and v[0].tag == "parser" \
            and isinstance(v[1], Mock) and v[1].tag == "parser.parse_args()"
        yield "ensures.one_parser", [e[0] for e in eff].count("ArgumentParser") == 1
        table = {}
        for name, a, k in eff:
            if name.endswith(".add_argument"):
                table.setdefault(name[:-len(".add_argument")], []).append((tuple(a), dict(k)))
        subs = [e for e in eff if e[0] == "parser.add_subparsers"]
        yield "ensures.subcommand_stored_as_command", len(subs) == 1 and subs[0][2].get("dest") == "command"
        yield "ensures.five_subcommands", sorted(e[1][0] for e in eff if e[0] == "subparsers.add_parser" and e[1]) == sorted(c_ for c_ in COMMANDS if c_)

        def opt(owner, flag):
            hits = [(a, k) for a, k in table.get(owner, []) if flag in a]
            return hits[0] if len(hits) == 1 else None

        def same(x, y):
            x, y = simplify_native(x), simplify_native(y)
            return x is y or (type(x) is type(y) and x == y)
        o = opt("parser", "--account")
        yield "ensures.account.validator_and_default", o is not None and o[1].get("type") is M.account_index and same(o[1].get("default"), 0) \
            and "nargs" not in o[1] and "action" not in o[1] and _dest_ok(o)
        o = opt("parser", "--interval")
        okd = False
        if o is not None:
            d = o[1].get("default")
            d = c.deref(d).items if isinstance(d, Ref) else d
            okd = isinstance(d, (list, tuple)) and [simplify_native(x) for x in d] == [0, 20]
        yield "ensures.interval.two_validated_values_default_0_20", o is not None and o[1].get("type") is M.address_index and same(o[1].get("nargs"), 2) and okd \
            and "action" not in o[1] and _dest_ok(o)
        o = opt("parser", "--file")
        yield "ensures.file.validator", o is not None and set(o[0]) == {"-f", "--file"} and o[1].get("type") is M.file_ and "default" not in o[1] \
            and not o[1].get("required") and "action" not in o[1] and _dest_ok(o)
        for flag in ("--testnet", "--paranoia"):
            o = opt("parser", flag)
            yield f"ensures.{flag[2:]}.store_true_flag", o is not None and o[0] == (flag,) and o[1].get("action") == "store_true" and "default" not in o[1] and _dest_ok(o)
        have = {x for a, k in table.get("parser", []) for x in a}
        yield "ensures.global_options_present", {"--file", "--testnet", "--paranoia", "--account", "--interval"} <= have
        pos = {"from-master-xprv": ("master_xprv", M.extended_key), "from-mnemonic": ("mnemonic", M.mnemonic),
               "from-bip39-seed": ("seed_hex", M.bip39_seed), "from-entropy-hex": ("entropy_hex", M.entropy_hex)}
        pw = {"new": True, "from-mnemonic": True, "from-entropy-hex": True, "from-master-xprv": False, "from-bip39-seed": False}
        for cmd in [c_ for c_ in COMMANDS if c_]:
            rows = table.get(f"sub[{cmd}]", [])
            want = []
            if cmd in pos:
                want.append((pos[cmd][0],))
                o = opt(f"sub[{cmd}]", pos[cmd][0])
                yield f"ensures.{cmd}.positional_validator", o is not None and o[0] == (pos[cmd][0],) and o[1].get("type") is pos[cmd][1] \
                    and not (set(o[1]) - {"type", "help", "metavar"})
            if pw[cmd]:
                want.append(("--password",))
                o = opt(f"sub[{cmd}]", "--password")
                yield f"ensures.{cmd}.password_string_default_empty", o is not None and o[1].get("type") is str and same(o[1].get("default"), "") \
                    and not o[1].get("required") and _dest_ok(o) and "action" not in o[1]
            if cmd == "new":
                want.append(("--mnemonic-len",))
                o = opt("sub[new]", "--mnemonic-len")
                ch = o[1].get("choices") if o else None
                ch = c.deref(ch).items if isinstance(ch, Ref) else ch
                yield "ensures.new.mnemonic_len_choices", o is not None and o[1].get("type") is int and same(o[1].get("default"), 24) \
                    and ch is not None and sorted(simplify_native(x) for x in ch) == [12, 15, 18, 21, 24] and _dest_ok(o) and "action" not in o[1]
            yield f"ensures.{cmd}.arguments_present", {w[0] for w in want} <= {x for a, k in rows for x in a}


CANARIES = []


class CanaryParanoiaKeepsBip85(ParanoiaMode):
    """must FAIL: spec whitelisting BIP85"""
    props = ("C15",)

    def post(self, c, I, out):
        if out.returned:
            res = c.deref(out.value).d
            yield "canary.bip85_kept", ("BIP85" in I.d) == ("BIP85" in res)


class CanaryAccountMax(AccountIndex):
    """must FAIL: spec accepting account 2^31 - 1"""
    props = ("C20",)
    lo, hi = 0, 2 ** 31


CANARIES += [CanaryParanoiaKeepsBip85(), CanaryAccountMax()]
