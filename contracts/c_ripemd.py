"""Sidecar contracts for btc_hd_wallet/ripemd.py (C05): the pure-Python RIPEMD-160 against the generative
spec (spec/ripemd160.py), in low-bits mode (pyvc/lowbits.py)."""
from . import summaries as _SUM_ALWAYS      # noqa: F401,E402  (summaries installed independent of import order)
import z3
from pyvc import logic as L
from pyvc import engine as E
from pyvc import seqs as Q
from pyvc.seqs import ZSeq, ISeq
from pyvc.lowbits import LB, bv, W, MASK
from pyvc.logic import (Rope, as_rope, is_sym, land, lor, lnot, implies, iff, eq, sink)
from pyvc.engine import Undecided, PyRaise, SUMMARIES
from pyvc.verify import NS
from spec import ripemd160 as S

CONTRACTS = []
CANARIES = []


def contract(cls):
    CONTRACTS.append(cls())
    return cls


def canary(cls):
    CANARIES.append(cls())
    return cls


BV_OPS = (lambda a, b: a & b, lambda a, b: a | b, lambda a, b: a ^ b, lambda a: ~a)


def rotl(x, s):
    return z3.RotateLeft(x, s)


def spec_round_bv(j, Lst, Rst, X):
    A, B, C, D, Ev = Lst
    T = rotl(A + S.f(j, B, C, D, BV_OPS) + X[S.R_L[j]] + z3.BitVecVal(S.K_L[j // 16], W), S.S_L[j]) + Ev
    L2 = (Ev, T, B, rotl(C, 10), D)
    A, B, C, D, Ev = Rst
    T = rotl(A + S.f(79 - j, B, C, D, BV_OPS) + X[S.R_R[j]] + z3.BitVecVal(S.K_R[j // 16], W), S.S_R[j]) + Ev
    R2 = (Ev, T, B, rotl(C, 10), D)
    return L2, R2


def spec_final_bv(h, Lst, Rst):
    return (h[1] + Lst[2] + Rst[3], h[2] + Lst[3] + Rst[4], h[3] + Lst[4] + Rst[0], h[4] + Lst[0] + Rst[1], h[0] + Lst[1] + Rst[2])


@contract
class Rol:
    """rol(x, i) is the 32-bit left rotation of the low 32 bits of ANY integer x (also negative / unbounded), 1 <= i <= 31"""
    target = "btc_hd_wallet.ripemd.rol"
    props = ("C05",)

    def inputs(self, B):
        if B.concrete:
            x = B.int("x", -2 ** 40, 2 ** 40)
            i = B.int("i", 1, 32)
            return [x, i], {}, NS(x=x, i=i)
        i = 1 + B.case("i_minus_1", 31)
        x = LB.fresh("x")
        return [x, i], {}, NS(x=x, i=i)

    def post(self, c, I, out):
        yield "ensures.returns", out.returned
        if out.returned:
            if isinstance(I.x, int):
                yield "ensures.rotl32", out.value == S.rol_int(I.x, I.i)
                return
            ok = isinstance(out.value, LB)
            yield "ensures.is_32_bit_value", ok and out.value.exact
            if ok:
                yield "ensures.rotl32", out.value.v == rotl(I.x.v, I.i)


@contract
class Fi:
    """fi(x, y, z, i) are the five RIPEMD boolean functions on the low 32 bits"""
    target = "btc_hd_wallet.ripemd.fi"
    props = ("C05",)

    def inputs(self, B):
        i = B.case("i", 5)
        if B.concrete:
            x, y, z = [B.int(n, -2 ** 40, 2 ** 40) for n in "xyz"]
        else:
            x, y, z = LB.fresh("x"), LB.fresh("y"), LB.fresh("z")
        return [x, y, z, i], {}, NS(x=x, y=y, z=z, i=i)

    def post(self, c, I, out):
        yield "ensures.returns", out.returned
        if out.returned:
            if isinstance(I.x, int):
                yield "ensures.f_i", (out.value & MASK) == S.f(16 * I.i, I.x & MASK, I.y & MASK, I.z & MASK, S.INT_OPS) & MASK
                return
            yield "ensures.f_i", isinstance(out.value, LB) and out.value.v == S.f(16 * I.i, I.x.v, I.y.v, I.z.v, BV_OPS)


STATE = ["al", "bl", "cl", "dl", "el", "ar", "br", "cr", "dr", "er"]


class RoundLoop:
    """the 80-round loop of compress: for every j in 0..79 and EVERY state, one execution of the loop body
    equals the spec round j (left and right line); composition over the 80 rounds is the induction"""
    name = "compress.rounds"

    def at_entry(self, ctx, frame, it):
        g = NS(j=None)
        ctx.ghost = getattr(ctx, "ghost", {})
        ctx.ghost[self.name] = g
        h = [frame.env[n] for n in ("h0", "h1", "h2", "h3", "h4")]
        ok = all(bv(frame.env[STATE[k]]).eq(bv(h[k % 5])) for k in range(10))
        ctx.side_check("compress.rounds.initial_state_is_h", ok)
        g.x = [bv(v) for v in E.iterate(ctx, frame.env["x"])]
        ctx.side_check("compress.rounds.range_is_80", isinstance(it, range) and it == range(80))
        return g

    def invariant(self, ctx, frame, g):
        return True

    def havoc(self, ctx, frame, g):
        k = ctx.loop_counter
        g.mode = z3.Bool(f"rounds_continue!{k}")
        # pick j in 0..79 by case split
        jv = z3.Int(f"round_j!{k}")
        ctx.assume(z3.And(jv >= 0, jv < 80))
        g.j = 79
        for cand in range(79):
            if ctx.branch(jv == cand):
                g.j = cand
                break
        g.old = {}
        for n in STATE:
            g.old[n] = LB.fresh(f"{n}!{k}")
            frame.env[n] = g.old[n]
        for n in ("j", "rnd"):
            frame.env.pop(n, None)

    def for_cond(self, ctx, frame, g):
        return g.mode

    def for_element(self, ctx, frame, g):
        return g.j

    def for_advance(self, ctx, frame, g):
        j = g.j
        Lst = tuple(g.old[n].v for n in STATE[:5])
        Rst = tuple(g.old[n].v for n in STATE[5:])
        L2, R2 = spec_round_bv(j, Lst, Rst, g.x)
        for n, want in zip(STATE, L2 + R2):
            got = frame.env[n]
            ctx.side_check(f"compress.round[{j}].{n}", bv(got) == want)

    def at_exit(self, ctx, frame, g):
        g.final = {n: frame.env[n] for n in STATE}


@contract
class Compress:
    """C05: compress(h, block) equals the RIPEMD-160 compression function on the low 32 bits of the state,
    for every 64-byte block and every (also unreduced) input state"""
    target = "btc_hd_wallet.ripemd.compress"
    props = ("C05",)
    loops = {0: RoundLoop()}
    max_paths = 400

    def inputs(self, B):
        if B.concrete:
            h = [B.int(f"h{i}", 0, 2 ** 34) for i in range(5)]
            block = B.bytes("block", 64)
            return h + [block], {}, NS(h=h, block=block)
        h = [LB.fresh(f"h{i}") for i in range(5)]
        ws = [z3.BitVec(f"w{i}", W) for i in range(16)]
        block = Rope([(z3.BV2Int(w), 4, True) for w in ws])
        for w in ws:
            sink().add(z3.And(z3.BV2Int(w) >= 0, z3.BV2Int(w) < 2 ** 32))
        return h + [block], {}, NS(h=h, ws=ws)

    def post(self, c, I, out):
        yield "ensures.returns", out.returned
        if not out.returned:
            return
        if isinstance(I.h[0], int):
            want = S.compress(tuple(x & MASK for x in I.h), as_rope(I.block).native())
            yield "ensures.compress_value", tuple(x & MASK for x in out.value) == want
            return
        g = c.ghost["compress.rounds"]
        Lst = tuple(bv(g.final[n]) for n in STATE[:5])
        Rst = tuple(bv(g.final[n]) for n in STATE[5:])
        want = spec_final_bv([x.v for x in I.h], Lst, Rst)
        ok = isinstance(out.value, tuple) and len(out.value) == 5
        yield "ensures.five_words", ok
        if ok:
            for k in range(5):
                yield f"ensures.feed_forward[{k}]", bv(out.value[k]) == want[k]
            yield "ensures.message_words_are_le32_of_block", all(a.eq(b) for a, b in zip(g.x, I.ws))


# ------------------------------------------------------------------------------------------ ripemd160 (padding + block folds)
COMP = [z3.Function(f"RMD_COMPRESS_{k}", *([z3.IntSort()] * 5), ISeq, z3.IntSort()) for k in range(5)]
FOLD = [z3.Function(f"RMD_FOLD_{k}", *([z3.IntSort()] * 5), ISeq, z3.IntSort(), z3.IntSort()) for k in range(5)]


def lo32(x):
    x = L.simplify_native(x)
    if isinstance(x, int):
        return z3.IntVal(x & MASK)
    return L.toint(x) % (2 ** 32)


def s_compress(ctx, args, kw):
    """callers see the contract of compress: the low 32 bits of the five results are a function COMPRESS of the
    low 32 bits of the state and the block; the high parts are unconstrained non-negative garbage"""
    h = [lo32(a) for a in args[:5]]
    blk = Q.coerce(args[5], "bytes")
    if blk is None:
        raise Undecided("compress summary: block")
    if not ctx.branch(L.toint(blk.length()) == 64):
        raise Undecided("compress called with a block that is not 64 bytes")
    out = []
    for k in range(5):
        c = COMP[k](*h, blk.t)
        sink().add(z3.And(c >= 0, c < 2 ** 32))
        g = sink().fresh("carry")
        sink().add(g >= 0)
        out.append(c + (2 ** 32) * g)
    return tuple(out)


def fold_unfold(start, seq, b):
    """FOLD(start, seq, b+1) = COMPRESS(FOLD(start, seq, b), seq[64b : 64b+64]);  FOLD(start, seq, 0) = start"""
    fs = [FOLD[k](*start, seq, b) for k in range(5)]
    blk = z3.SubSeq(seq, 64 * b, 64)
    return z3.And(*[FOLD[k](*start, seq, b + 1) == COMP[k](*fs, blk) for k in range(5)] +
                  [FOLD[k](*start, seq, z3.IntVal(0)) == start[k] for k in range(5)])


class BlockLoop:
    """`for b in range(len(seq) >> 6): state = compress(*state, seq[64*b:64*(b+1)])`
    invariant: low 32 bits of state == FOLD(start, seq, b)"""
    def __init__(self, name, seqvar):
        self.name, self.seqvar = name, seqvar

    def at_entry(self, ctx, frame, it):
        seq = Q.coerce(frame.env[self.seqvar], "bytes")
        if seq is None:
            raise Undecided("block loop over a non-sequence")
        st = frame.env["state"]
        start = [lo32(x) for x in st]
        g = NS(seq=seq.t, zseq=seq, start=start, b=z3.IntVal(0), n=None)
        n = it.stop if hasattr(it, "stop") else None
        g.n = L.toint(n)
        ctx.side_check(f"{self.name}.trip_count_is_len_div_64", land(eq(getattr(it, "start", 0), 0), g.n == L.toint(seq.length()) / 64))
        ctx.ghost = getattr(ctx, "ghost", {})
        ctx.ghost[self.name] = g
        sink().add(fold_unfold(start, g.seq, z3.IntVal(0)))
        return g

    def invariant(self, ctx, frame, g):
        st = frame.env["state"]
        return land(g.b >= 0, g.b <= g.n, *[lo32(st[k]) == FOLD[k](*g.start, g.seq, g.b) for k in range(5)])

    def havoc(self, ctx, frame, g):
        k = ctx.loop_counter
        g.b = z3.Int(f"b!{self.name}!{k}")
        frame.env["state"] = tuple(z3.Int(f"state{i}!{k}") for i in range(5))
        for i in range(5):
            sink().add(frame.env["state"][i] >= 0)
        sink().add(fold_unfold(g.start, g.seq, g.b))

    def for_cond(self, ctx, frame, g):
        return g.b < g.n

    def for_element(self, ctx, frame, g):
        return g.b

    def for_advance(self, ctx, frame, g):
        g.b = g.b + 1

    def at_exit(self, ctx, frame, g):
        g.final_state = frame.env["state"]


@contract
class Ripemd160:
    """C05: ripemd160(data) is the Merkle-Damgard iteration of compress over data || 80 || 00^p || le64(8n),
    p = (55 - n) mod 64, for EVERY length n < 2^61: the full blocks of data first, then the 1 or 2 final blocks"""
    target = "btc_hd_wallet.ripemd.ripemd160"
    props = ("C05",)
    timeout_ms = 90000          # two sequence/LIA obligations need 3-5 s alone; generous head-room under load
    loops = {0: BlockLoop("ripemd160.loop0", "data"), 1: BlockLoop("ripemd160.loop1", "fin")}

    def run(self, ctx, f, args, kwargs, I):
        saved = dict(SUMMARIES)
        try:
            SUMMARIES["btc_hd_wallet.ripemd.compress"] = s_compress
            SUMMARIES.pop("btc_hd_wallet.ripemd.ripemd160", None)
            return ctx.call_value(f, args, kwargs)
        finally:
            SUMMARIES.clear()
            SUMMARIES.update(saved)

    def inputs(self, B):
        if B.concrete:
            n = B.int("n", 0, 300)
            data = bytes((B.int("seed", 0, 256) + 7 * i) % 256 for i in range(n))
            return [data], {}, NS(data=data)
        data = ZSeq.sym("data", "bytes")
        n = data.length()
        B.assume(n < 2 ** 61)
        return [data], {}, NS(data=data, n=n)

    def post(self, c, I, out):
        if isinstance(I.data, bytes):
            yield "ensures.digest", out.returned and bytes(out.value) == S.ripemd160(I.data)
            return
        yield "ensures.returns", out.returned
        if not out.returned:
            return
        n = I.data.length()
        d = I.data.t
        g0, g1 = c.ghost["ripemd160.loop0"], c.ghost["ripemd160.loop1"]
        q = n / 64
        p = (55 - n) % 64
        fin = g1.zseq
        yield "ensures.first_loop_runs_over_the_message", g0.seq.eq(d)
        yield "ensures.first_loop_starts_from_IV", land(*[g0.start[k] == S.IV[k] for k in range(5)])
        # structural comparison of the final block(s): tail of the message, 80, p zero bytes, le64(8n)
        parts = fin.parts or []
        shape = [x[0] for x in parts] == ["slice", "lit", "rep", "rope"]
        yield "ensures.padding_shape_tail_80_zeros_length", shape
        if shape:
            sl, lt, rp, rope = parts
            yield "ensures.padding.tail_is_message_from_last_block_boundary", land(sl[1].eq(d), sl[2] == 64 * q, sl[3] == n - 64 * q)
            yield "ensures.padding.marker_80", lt[1] == b"\x80"
            yield "ensures.padding.zero_count_every_boundary", land(rp[1] == 0, L.toint(rp[2]) == p)
            yield "ensures.padding.length_field_le64_of_bit_length", len(rope[1]) == 8 and eq(rope[1].le(), 8 * n)
        flen = L.toint(fin.length())
        yield "ensures.final_length_64_or_128", land(flen == 64 * (1 + z3.If(n % 64 >= 56, 1, 0)), flen % 64 == 0)
        yield "ensures.second_loop_continues_from_first", land(*[g1.start[k] == FOLD[k](*g0.start, g0.seq, q) for k in range(5)])
        st = [FOLD[k](*g1.start, g1.seq, flen / 64) for k in range(5)]
        want = Rope([(st[k], 4, True) for k in range(5)])
        res = L.simplify_native(out.value)
        yield "ensures.output_is_le32_of_final_state", isinstance(res, Rope) and len(res) == 20 and eq(res, want)
