"""Replay of a refuted obligation on the REAL code (CPython executing the repository's functions).

The contract's own `inputs` is re-run with a concrete builder fed from the z3 model, the
resulting engine-level heap is materialised into real Python objects, the real function is
called (with the PRF stubbed where the model interprets it), the real objects are lifted back
and the contract's own `post` is evaluated on concrete values."""
import io
import types
import traceback
import z3
import ecdsa

from . import logic as L
from . import prims as U
from . import engine as E
from .logic import Rope, is_sym, simplify_native
from .engine import Ctx, Ref, HObj, HList, HDict, HBytesIO, ModelObj, SStr, PyRaise, is_repo_class
from .verify import Outcome, resolve_target, heap_diff, NS


class Junk:
    """stand-in content of an arbitrary list prefix"""
    def __init__(self, name):
        self.name = name

    def __repr__(self):
        return f"<junk {self.name}>"


class ConcreteBuilder:
    concrete = True

    def __init__(self, ctx, vals):
        self.ctx = ctx
        self.vals = vals
        self.vars = {}
        self.ok = True

    def _get(self, name, default=0):
        v = self.vals.get(name)
        if v is None or isinstance(v, str):
            return default
        return v

    def hint(self, name, values):
        pass

    def int(self, name, lo=None, hi=None):
        v = int(self._get(name, lo if lo is not None else 0))
        if (lo is not None and v < lo) or (hi is not None and v >= hi):
            self.ok = False
            # keep whatever is built from it bounded: clamp into the declared range
            v = lo if lo is not None else (hi - 1)
        return v

    def bool(self, name):
        return bool(self._get(name, False))

    def bytes(self, name, n):
        if n == 0:
            return b""
        v = int(self._get(name, 0)) % (256 ** n)
        return Rope.of(v.to_bytes(n, "big"))

    def obj(self, cls, **fields):
        return self.ctx.new_obj(cls, **fields)

    def list_sym(self, name):
        return self.ctx.new_list([], base=name)

    def list(self, items):
        return self.ctx.new_list(items)

    def assume(self, f):
        f = simplify_native(f)
        if is_sym(f):
            f = z3.simplify(f)
            f = True if z3.is_true(f) else (False if z3.is_false(f) else True)
        if not f:
            self.ok = False

    def case(self, name, n):
        return int(self._get(name, 0)) % n


class Materializer:
    def __init__(self, ctx):
        self.ctx = ctx
        self.real = {}      # oid -> real object
        self.back = {}      # id(real) -> oid

    def mat(self, v):
        v = simplify_native(v)
        if isinstance(v, E.BoundMeth) and not isinstance(v.func, tuple):
            return types.MethodType(v.func, self.mat(v.self_val))
        if type(v).__name__ == "WeakRef":
            import weakref
            return weakref.ref(self.mat(v.target))
        if hasattr(v, "materialize"):
            return v.materialize()
        if isinstance(v, Rope):
            return v.native()
        if isinstance(v, Ref):
            if v.oid in self.real:
                return self.real[v.oid]
            o = self.ctx.deref(v)
            if isinstance(o, HObj):
                r = o.cls.__new__(o.cls)
                self.real[v.oid] = r
                self.back[id(r)] = v.oid
                for k, fv in o.fields.items():
                    object.__setattr__(r, k, self.mat(fv)) if False else setattr(r, k, self.mat(fv))
                return r
            if isinstance(o, HList):
                r = []
                self.real[v.oid] = r
                self.back[id(r)] = v.oid
                if o.base is not None:
                    r.append(Junk(o.base))
                r.extend(self.mat(x) for x in o.items)
                return r
            if isinstance(o, HDict):
                r = {}
                self.real[v.oid] = r
                self.back[id(r)] = v.oid
                for k, x in o.d.items():
                    r[k] = self.mat(x)
                return r
            if isinstance(o, HBytesIO):
                r = io.BytesIO(o.rope.native())
                r.seek(o.pos)
                self.real[v.oid] = r
                self.back[id(r)] = v.oid
                return r
        if isinstance(v, tuple):
            return tuple(self.mat(x) for x in v)
        if isinstance(v, SStr):
            n = v.native()
            if n is None:
                raise ValueError("cannot materialise structured string")
            return n
        if isinstance(v, ModelObj):
            if v.kind == "VerifyingKey":
                return ecdsa.VerifyingKey.from_public_point(v.f["pt"].t, curve=ecdsa.SECP256k1)
            raise ValueError("cannot materialise " + v.kind)
        if isinstance(v, U.SymPt):
            return v.t
        return v

    # -- lifting the real objects back into an engine heap
    def lift(self, v, ctx):
        if isinstance(v, (bool, int, str, type(None), float)):
            return v
        if isinstance(v, (bytes, bytearray)):
            return bytes(v)
        if isinstance(v, tuple):
            return tuple(self.lift(x, ctx) for x in v)
        if isinstance(v, Junk):
            return v
        if id(v) in self.back and self.real.get(self.back[id(v)]) is v:
            oid = self.back[id(v)]
            if oid in self._done:
                return Ref(oid)
            self._done.add(oid)
            self._fill(oid, v, ctx)
            return Ref(oid)
        if isinstance(v, list):
            ref = ctx.alloc(HList())
            self._register(ref.oid, v)
            self._fill(ref.oid, v, ctx)
            return ref
        if isinstance(v, dict):
            ref = ctx.alloc(HDict())
            self._register(ref.oid, v)
            self._fill(ref.oid, v, ctx)
            return ref
        if isinstance(v, io.BytesIO):
            ref = ctx.alloc(HBytesIO(Rope.of(v.getvalue()), v.tell()))
            self._register(ref.oid, v)
            return ref
        if is_repo_class(type(v)) and not isinstance(v, (BaseException,)) and not E._is_enum(type(v)):
            ref = ctx.alloc(HObj(type(v)))
            self._register(ref.oid, v)
            self._fill(ref.oid, v, ctx)
            return ref
        import weakref as _wr
        if isinstance(v, _wr.ref):
            from .models import WeakRef
            t = v()
            return WeakRef(self.lift(t, ctx)) if t is not None else WeakRef(None)
        if isinstance(v, ecdsa.VerifyingKey):
            return ModelObj("VerifyingKey", pt=U.SymPt(v.pubkey.point))
        if isinstance(v, ecdsa.SigningKey):
            return ModelObj("SigningKey", k=v.privkey.secret_multiplier)
        if isinstance(v, (ecdsa.ellipticcurve.Point, ecdsa.ellipticcurve.PointJacobi)) or v is ecdsa.ellipticcurve.INFINITY:
            return U.SymPt(v)
        return v

    def _register(self, oid, v):
        self.real[oid] = v
        self.back[id(v)] = oid
        self._done.add(oid)

    def _fill(self, oid, v, ctx):
        if isinstance(v, list):
            items = list(v)
            base = None
            if items and isinstance(items[0], Junk):
                base = items[0].name
                items = items[1:]
            ctx.heap[oid] = HList([self.lift(x, ctx) for x in items], base)
            ctx.heap[oid].items = [self.lift(x, ctx) for x in items]
        elif isinstance(v, dict):
            ctx.heap[oid] = HDict({k: self.lift(x, ctx) for k, x in v.items()})
        elif isinstance(v, io.BytesIO):
            ctx.heap[oid] = HBytesIO(Rope.of(v.getvalue()), v.tell())
        else:
            fields = {}
            names = []
            for k in type(v).__mro__:
                s = vars(k).get("__slots__")
                if s:
                    names.extend([s] if isinstance(s, str) else s)
            if hasattr(v, "__dict__"):
                names.extend(vars(v).keys())
            o = HObj(type(v))
            ctx.heap[oid] = o
            for nme in names:
                try:
                    fv = getattr(v, nme)
                except AttributeError:
                    continue
                o.fields[nme] = self.lift(fv, ctx)

    def lift_all(self, ctx, result):
        self._done = set()
        for oid, r in list(self.real.items()):
            if oid not in self._done:
                self._done.add(oid)
                self._fill(oid, r, ctx)
        return self.lift(result, ctx)


STUB_STATE = {}


def stub_bypassed():
    """did the real code compute an HMAC-SHA512 WITHOUT going through the substituted PRF while a substitution was
    active?  Then the run says nothing about the contract under the substituted PRF (the substitution point
    helper.hmac_sha512 / bip32.hmac_sha512 / bip85.hmac_sha512 is an assumption of the replay harness, not of the
    property): such a sample is discarded, never reported."""
    return bool(STUB_STATE.get("active")) and STUB_STATE["state"]["bypass"] > 0


def install_stubs(stubs):
    """stubs: [[name, [arg hex...], out hex]] from the model; returns an undo function"""
    import btc_hd_wallet.helper as helper
    import btc_hd_wallet.bip32 as bip32
    import btc_hd_wallet.bip85 as bip85
    U.OVERRIDES.clear()
    U.WILDCARD.clear()
    for name, args, out in stubs or []:
        if name == "hmac512":
            U.OVERRIDES[(name,) + tuple(bytes.fromhex(a) for a in args)] = bytes.fromhex(out)
        if name == "hmac512*":
            # chosen-output PRF: `out` = hex of the forced left half, or "L:<hex>" / "R:<hex>" to force one half;
            # the other half comes from the real HMAC
            side, hx = ("L", out) if ":" not in out else out.split(":", 1)
            half = bytes.fromhex(hx)

            def mk(side, half):
                def fn(k, m):
                    real = __import__("hmac").new(k, m, "sha512").digest()
                    return half + real[32:] if side == "L" else real[:32] + half
                return fn
            U.WILDCARD["hmac512"] = mk(side, half)
    real = helper.hmac_sha512
    saved = [(m, m.hmac_sha512) for m in (helper, bip32, bip85) if hasattr(m, "hmac_sha512")]
    import hmac as _hmac
    state = dict(in_stub=0, bypass=0)
    STUB_STATE.clear()
    STUB_STATE.update(state=state, active=bool(U.OVERRIDES or U.WILDCARD))

    def stub(key, msg):
        state["in_stub"] += 1
        try:
            ov = U.override("hmac512", bytes(key), bytes(msg))
            if ov is not None:
                return ov
            return real(key=key, msg=msg)
        finally:
            state["in_stub"] -= 1
    real_new, real_digest = _hmac.new, _hmac.digest
    real_HMAC_copy = _hmac.HMAC.copy

    def is512(d):
        return d in ("sha512", "SHA512") or getattr(d, "__name__", "") in ("sha512", "openssl_sha512")

    def new(key, msg=None, digestmod=""):
        if not state["in_stub"] and is512(digestmod):
            state["bypass"] += 1           # an HMAC-SHA512 computed without going through the substituted PRF
        return real_new(key, msg, digestmod)

    def digest(key, msg, digest):
        if not state["in_stub"] and is512(digest):
            state["bypass"] += 1
        return real_digest(key, msg, digest)

    def hcopy(self):
        if not state["in_stub"] and "512" in str(getattr(self, "name", "")):
            state["bypass"] += 1           # a pre-keyed HMAC state reused (the key set-up happened at import time)
        return real_HMAC_copy(self)
    if U.OVERRIDES or U.WILDCARD:
        for m, _ in saved:
            m.hmac_sha512 = stub
        _hmac.new, _hmac.digest = new, digest
        _hmac.HMAC.copy = hcopy

    def undo():
        for m, f in saved:
            m.hmac_sha512 = f
        _hmac.new, _hmac.digest = real_new, real_digest
        _hmac.HMAC.copy = real_HMAC_copy
        U.OVERRIDES.clear()
        U.WILDCARD.clear()
    return undo


def replay_contract(contract, model, stubs, clause=None, stash=None):
    """-> dict(confirmed=bool|None, detail=..., failed=[clauses]); `stash` (a dict) receives the raw result and context"""
    undo = install_stubs(stubs)
    try:
        ctx = Ctx([], opts=dict(getattr(contract, "opts", {}) or {}))
        CB = ConcreteBuilder(ctx, model or {})
        args, kwargs, I = contract.inputs(CB)
        if not CB.ok:
            return dict(confirmed=None, detail="model does not satisfy the input invariant when made concrete")
        snap = ctx.snapshot()
        ctx.entry_snapshot = snap
        M = Materializer(ctx)
        f = resolve_target(contract.target)
        rargs = [M.mat(a) for a in args]
        rkw = {k: M.mat(v) for k, v in kwargs.items()}
        try:
            if hasattr(contract, "run_real"):
                val = contract.run_real(f, rargs, rkw, I)
            else:
                val = f(*rargs, **rkw)
            kind, exc = "return", None
        except BaseException as e:     # noqa
            val, kind, exc = None, "raise", type(e)
        if stub_bypassed():
            return dict(confirmed=None, detail="the code computed HMAC-SHA512 without the substituted PRF: sample discarded")
        if stash is not None:
            stash.update(value=val, ctx=ctx, kind=kind)
        lifted = M.lift_all(ctx, val)
        out = Outcome(kind, value=lifted, exc_cls=exc)
        failed = []
        ctx.post_mode = True
        for name, formula in contract.post(ctx, I, out):
            v = simplify_native(formula)
            if is_sym(v):
                v = z3.simplify(v)
                v = True if z3.is_true(v) else (False if z3.is_false(v) else None)
            if v is False:
                failed.append(name)
        ctx.post_mode = False
        allowed = set(contract.modifies(ctx, I)) if hasattr(contract, "modifies") else set()
        bad = heap_diff(snap, ctx.heap) - allowed
        if bad:
            failed.append("frame")
        observed = repr(exc.__name__) if exc else _short(val)
        if clause is not None:
            conf = clause in failed
        else:
            conf = bool(failed)
        return dict(confirmed=conf, failed=failed, observed=observed, observed_kind=(kind, exc.__name__ if exc else None),
                    observed_mro=[k.__name__ for k in exc.__mro__] if exc else [],
                    call=dict(target=contract.target, args=[_short(a) for a in rargs[:6]]))
    except Exception as ex:
        return dict(confirmed=None, detail="replay harness error: " + repr(ex), tb=traceback.format_exc())
    finally:
        undo()


def canon(ctx, v, depth=0):
    """canonical plain form of an interpreter value (heap refs, ropes, structured strings) or of a native value"""
    from pyvc.logic import Rope, simplify_native, is_sym
    from pyvc.engine import Ref, HObj, HList, HDict, HBytesIO, ModelObj, SStr
    import z3, io
    SKIP = ("parent", "children", "_parent", "_children")
    if depth > 7:
        return "..."
    v = simplify_native(v)
    if is_sym(v):
        v = simplify_native(z3.simplify(v))
    if isinstance(v, SStr) and v.native() is not None:
        v = v.native()
    if isinstance(v, Rope) and v.is_concrete():
        v = v.native()
    if isinstance(v, Ref):
        o = ctx.heap[v.oid]
        if isinstance(o, HObj):
            return ("obj", o.cls.__name__, tuple(sorted((k, canon(ctx, x, depth + 1)) for k, x in o.fields.items() if k not in SKIP)))
        if isinstance(o, HList):
            if o.base is not None:
                return ("list+", len(o.items))
            return ("seq", tuple(canon(ctx, x, depth + 1) for x in o.items))
        if isinstance(o, HDict):
            return ("dict", tuple((canon(ctx, k, depth + 1), canon(ctx, x, depth + 1)) for k, x in o.d.items()))
        if isinstance(o, HBytesIO):
            return ("stream", canon(ctx, o.pos))
        return ("heap", type(o).__name__)
    if isinstance(v, bool) or v is None:
        return v
    if isinstance(v, (int, str, bytes)):
        return v
    if isinstance(v, bytearray):
        return bytes(v)
    if isinstance(v, (list, tuple)):
        return ("seq", tuple(canon(ctx, x, depth + 1) for x in v))
    if isinstance(v, dict):
        return ("dict", tuple((canon(ctx, k, depth + 1), canon(ctx, x, depth + 1)) for k, x in v.items()))
    if isinstance(v, io.BytesIO):
        return ("stream", v.tell())
    if isinstance(v, ModelObj):
        return ("model", v.kind)
    if type(v).__name__ == "SymPt":
        return ("pt", canon(ctx, getattr(v, "t", None)))
    if type(v).__module__.startswith("btc_hd_wallet"):
        d = dict(getattr(v, "__dict__", {}))
        for klass in type(v).__mro__:
            for k in getattr(klass, "__slots__", ()):
                if k != "__weakref__" and hasattr(v, k):
                    d[k] = getattr(v, k)
        return ("obj", type(v).__name__, tuple(sorted((k, canon(ctx, x, depth + 1)) for k, x in d.items() if k not in SKIP)))
    if type(v).__module__.startswith("ecdsa"):
        try:
            return ("ec", v.to_string() if hasattr(v, "to_string") else (v.x(), v.y()))
        except Exception:
            return ("ec", type(v).__name__)
    return ("other", type(v).__name__, str(v)[:80])


def _wild(x):
    return isinstance(x, tuple) and x and (x[0] == "model" or (x[0] == "other" and x[1] in ("Rope", "SStr", "ArithRef", "BoolRef", "OStr", "Dec")))


def _same(x, y):
    """structural equality; a modelled library value / an uninterpreted term on the interpreter side is an
    abstraction with nothing to compare"""
    if _wild(x):
        return True
    if isinstance(x, tuple) and isinstance(y, tuple):
        return len(x) == len(y) and all(_same(a, b) for a, b in zip(x, y))
    return x == y


def deep_same(ctx_a, a, ctx_b, b):
    ca, cb = canon(ctx_a, a), canon(ctx_b, b)
    return _same(ca, cb), ca, cb



def engine_outcome(contract, model, stubs):
    """the engine used as an INTERPRETER (no folding: every repository function is executed by the engine) on the
    concrete inputs of a counter-model -> ("return", None) | ("raise", cls) | None when it cannot run them"""
    from .engine import PyRaise, Undecided, PathCut, PathLimit, contains_sym
    if hasattr(contract, "run_real") and not hasattr(contract, "run"):
        return None
    undo = install_stubs(stubs)
    try:
        ctx = Ctx([], opts=dict(getattr(contract, "opts", {}) or {}, no_fold={contract.target}, no_fold_all=True))
        CB = ConcreteBuilder(ctx, model or {})
        args, kwargs, I = contract.inputs(CB)
        if not CB.ok or any(contains_sym(a) for a in list(args) + list(kwargs.values())):
            return None
        f = resolve_target(contract.target)
        try:
            if hasattr(contract, "run"):
                v = contract.run(ctx, f, args, kwargs, I)          # the contract's own way of calling (mocked layers)
            else:
                v = ctx.call_value(f, args, kwargs)
            return ("return", None, ctx, v)
        except PyRaise as e:
            return ("raise", e.exc_cls, ctx, None)
        except (Undecided, PathCut, PathLimit, NotImplementedError):
            return None
    except Exception:
        return None
    finally:
        undo()


def _short(v):
    if isinstance(v, bytes):
        return "bytes:" + v.hex()
    if isinstance(v, (int, str, bool, type(None))):
        return v if not isinstance(v, int) or abs(v) < 2 ** 63 else hex(v)
    try:
        d = {}
        names = []
        for k in type(v).__mro__:
            s = vars(k).get("__slots__")
            if s:
                names.extend([s] if isinstance(s, str) else s)
        for n in names:
            if n in ("children", "parent"):
                continue
            x = getattr(v, n, None)
            d[n] = _short(x) if isinstance(x, (bytes, int, str, bool, type(None))) else type(x).__name__
        if d:
            return {type(v).__name__: d}
    except Exception:
        pass
    return repr(v)[:200]
