"""Polymorphic logic layer: every helper works on native Python values (concrete replay,
bounded stand-in) and on z3 terms (proof).  Byte strings of concrete length are *numeric
ropes*: lists of segments (value, length, little-endian flag)."""
import z3
# terms are printed only for reports: keep the printer bounded (z3's Python printer unfolds a DAG into a tree)
z3.set_option(max_depth=6, max_args=8, max_visited=300, max_lines=12)

INT = z3.IntSort()


def is_sym(x):
    return isinstance(x, z3.ExprRef)


def _b(x):
    """Python truthiness for native, z3 Bool stays."""
    return x if is_sym(x) else bool(x)


def land(*xs):
    out = []
    for x in xs:
        x = _b(x)
        if x is False:
            return False
        if x is True:
            continue
        out.append(x)
    if not out:
        return True
    return out[0] if len(out) == 1 else z3.And(*out)


def lor(*xs):
    out = []
    for x in xs:
        x = _b(x)
        if x is True:
            return True
        if x is False:
            continue
        out.append(x)
    if not out:
        return False
    return out[0] if len(out) == 1 else z3.Or(*out)


def lnot(x):
    x = _b(x)
    if x is True:
        return False
    if x is False:
        return True
    return z3.Not(x)


def implies(a, b):
    return lor(lnot(a), b)


def iff(a, b):
    a, b = _b(a), _b(b)
    if not is_sym(a):
        return b if a else lnot(b)
    if not is_sym(b):
        return a if b else lnot(a)
    return a == b


def ite(c, a, b):
    c = _b(c)
    if c is True:
        return a
    if c is False:
        return b
    if isinstance(a, Rope) or isinstance(b, Rope):
        a, b = as_rope(a), as_rope(b)
        assert len(a) == len(b), "ite on ropes of different length"
        return Rope([(ite(c, a.be(), b.be()), len(a), False)]) if len(a) else a
    if isinstance(a, bool) or isinstance(b, bool) or (is_sym(a) and z3.is_bool(a)):
        return z3.If(c, tobool(a), tobool(b))
    return z3.If(c, toint(a), toint(b))


def toint(x):
    if is_sym(x):
        return x
    if isinstance(x, bool):
        return z3.IntVal(int(x))
    return z3.IntVal(x)


def tobool(x):
    if is_sym(x):
        return x
    return z3.BoolVal(bool(x))


def family(x):
    """the Python type family a value stands for: 'bytes', 'str', 'int', 'none', 'other' or None (unknown)"""
    if x is None:
        return "none"
    if isinstance(x, (bytes, bytearray, Rope)):
        return "bytes"
    if isinstance(x, str):
        return "str"
    if isinstance(x, (bool, int)):
        return "int"
    if is_sym(x):
        return "int" if (z3.is_int(x) or z3.is_bool(x) or z3.is_bv(x)) else None
    if isinstance(x, SymVal):
        st = getattr(x, "sym_type", None)
        if st is not None:
            try:
                t = st()
            except Exception:
                return None
            return {bytes: "bytes", bytearray: "bytes", str: "str", int: "int", bool: "int"}.get(t, "other")
        if type(x).__name__ in ("SStr", "HexStr", "HexStrUpper", "CStr", "OStr", "B64Str", "BitStr", "HexNum", "BinNum", "StrOfLen", "WordsStr"):
            return "str"
        return None
    if isinstance(x, (tuple, list, dict, set, frozenset, float)):
        return "other"
    return None


def unlike(mine, other):
    """the answer of an equality test that no specific rule decided: values of different Python types are never
    equal; two representations of the SAME type family (e.g. stream bytes and a rope) are not comparable here"""
    fam = family(other)
    if fam is not None and fam != mine:
        return False
    raise NotImplementedError(f"equality of a {mine} value with {type(other).__name__} is not modelled")


def eq(a, b):
    """Structural equality on ints / bools / ropes / tuples / None / native values."""
    if isinstance(a, Rope) or isinstance(b, Rope):
        if (isinstance(a, (Rope, bytes, bytearray)) and isinstance(b, (Rope, bytes, bytearray))):
            return as_rope(a).eq(as_rope(b))
        o = b if isinstance(a, Rope) else a
        if hasattr(o, "sym_eq"):
            return o.sym_eq(a if o is b else b)
        return unlike("bytes", o)
    if hasattr(a, "sym_eq"):
        return a.sym_eq(b)
    if hasattr(b, "sym_eq"):
        return b.sym_eq(a)
    if isinstance(a, (tuple, list)) and isinstance(b, (tuple, list)):
        if type(a) != type(b) or len(a) != len(b):
            return False
        return land(*[eq(x, y) for x, y in zip(a, b)])
    if (isinstance(a, SymVal) or isinstance(b, SymVal)) and a is not b:
        # a symbolic wrapper that does not define equality: never silently "different"
        if a is None or b is None:
            for x in (a, b):
                if hasattr(x, "sym_is_none"):
                    return x.sym_is_none()
        raise NotImplementedError(f"equality of {type(a).__name__} and {type(b).__name__} is not modelled")
    if is_sym(a) or is_sym(b):
        if a is None or b is None:
            return False
        if is_sym(a) and is_sym(b):
            if a.sort() != b.sort():
                if {z3.is_bool(a), z3.is_bool(b)} == {True, False} and (z3.is_int(a) or z3.is_int(b)):
                    bl, it = (a, b) if z3.is_bool(a) else (b, a)
                    return z3.If(bl, 1, 0) == it            # True == 1, False == 0
                raise NotImplementedError("equality of terms of different sorts")
            return a == b
        s, n = (a, b) if is_sym(a) else (b, a)
        if z3.is_bool(s):
            if isinstance(n, bool):
                return s if n else z3.Not(s)
            if isinstance(n, int):      # True == 1
                return s if n == 1 else (z3.Not(s) if n == 0 else False)
            return False
        if z3.is_int(s):
            if isinstance(n, (int, bool)):
                return s == int(n)
            if isinstance(n, float):
                raise NotImplementedError("equality of a symbolic integer with a float")
            return False
        return False
    return a == b


def fdiv(a, b):
    """floor division for b > 0 (z3 div is floor for positive divisor)."""
    if is_sym(a) or is_sym(b):
        return toint(a) / toint(b)
    return a // b


def fmod(a, b):
    if is_sym(a) or is_sym(b):
        return toint(a) % toint(b)
    return a % b


# ----------------------------------------------------------------------------- ropes

class SymVal:
    """marker base class of symbolic wrapper values"""
    __slots__ = ()


class FactSink:
    """Where definitional facts about fresh variables go (installed by the engine)."""
    current = None

    def __init__(self):
        self.facts = []
        self.counter = 0
        self.split_cache = {}

    def add(self, f):
        if f is True:
            return
        self.facts.append(f)

    def fresh(self, base, sort=INT):
        self.counter += 1
        return z3.Const(f"{base}!{self.counter}", sort)


def define(base, expr):
    """name a term: a fresh constant with the defining fact c == expr, cached per (path, term) so that the
    code side and the spec side get the SAME constant for structurally equal terms"""
    if not is_sym(expr):
        return expr
    S = sink()
    key = ("def", expr.get_id())
    hit = S.split_cache.get(key)
    if hit is not None and hit[1].eq(expr):
        return hit[0]
    c = S.fresh(base)
    S.add(c == expr)
    S.split_cache[key] = (c, expr)
    return c


def sink():
    if FactSink.current is None:
        FactSink.current = FactSink()
    return FactSink.current


def _split_val(v, n, k, le):
    """Split segment (v, n bytes) into first k bytes and remaining n-k bytes.
    Returns (first_val, rest_val).  For be: v = first*256^(n-k) + rest.
    For le: bytes are little-endian of v: first k bytes are the LOW k bytes:
            v = rest*256^k + first."""
    assert 0 < k < n
    if not is_sym(v):
        if le:
            return v % (256 ** k), v >> (8 * k)
        return v >> (8 * (n - k)), v % (256 ** (n - k))
    S = sink()
    key = (v.get_id(), n, k, le)
    if key in S.split_cache:
        return S.split_cache[key]
    a = S.fresh("sp_a")
    b = S.fresh("sp_b")
    if le:
        S.add(v == b * (256 ** k) + a)
    else:
        S.add(v == a * (256 ** (n - k)) + b)
    S.add(z3.And(a >= 0, a < 256 ** k, b >= 0, b < 256 ** (n - k)))
    S.split_cache[key] = (a, b)
    # keep v alive so that its id is not reused
    S.split_cache[("keep", key)] = v
    return a, b


class Rope:
    """bytes of concrete length; segments (val, n, le)."""
    __slots__ = ("segs",)

    def __init__(self, segs=()):
        out = []
        for v, n, le in segs:
            if n == 0:
                continue
            if n == 1:
                le = False
            if isinstance(v, bool):
                v = int(v)
            # merge adjacent concrete big-endian segments
            if out and not is_sym(v) and not is_sym(out[-1][0]):
                pv, pn, ple = out[-1]
                cur = v.to_bytes(n, "little" if le else "big")
                prev = pv.to_bytes(pn, "little" if ple else "big")
                j = prev + cur
                out[-1] = (int.from_bytes(j, "big"), len(j), False)
                continue
            if not is_sym(v) and le:
                v = int.from_bytes(v.to_bytes(n, "little"), "big")
                le = False
            out.append((v, n, le))
        self.segs = out

    # -- construction
    @staticmethod
    def of(b):
        return Rope([(int.from_bytes(b, "big"), len(b), False)]) if len(b) else Rope()

    @staticmethod
    def sym(name, n):
        v = z3.Int(name)
        sink().add(z3.And(v >= 0, v < 256 ** n))
        return Rope([(v, n, False)])

    @staticmethod
    def of_int(v, n, le=False):
        return Rope([(v, n, le)])

    def __len__(self):
        return sum(n for _, n, _ in self.segs)

    def is_concrete(self):
        return all(not is_sym(v) for v, _, _ in self.segs)

    def native(self):
        assert self.is_concrete()
        return b"".join(v.to_bytes(n, "little" if le else "big") for v, n, le in self.segs)

    def __add__(self, other):
        return Rope(self.segs + as_rope(other).segs)

    def __radd__(self, other):
        return Rope(as_rope(other).segs + self.segs)

    def __mul__(self, k):
        assert isinstance(k, int)
        return Rope(self.segs * k)

    def slice(self, a, b):
        L = len(self)
        a, b, _ = slice(a, b).indices(L)
        if b <= a:
            return Rope()
        out = []
        off = 0
        for v, n, le in self.segs:
            lo, hi = max(a, off), min(b, off + n)
            if lo < hi:
                s, e = lo - off, hi - off     # within segment
                cv, cn = v, n
                if e < cn:
                    cv, _rest = _split_val(cv, cn, e, le)
                    cn = e
                if s > 0:
                    _first, cv = _split_val(cv, cn, s, le)
                    cn = cn - s
                out.append((cv, cn, le))
            off += n
        return Rope(out)

    def __getitem__(self, i):
        if isinstance(i, slice):
            assert i.step is None
            return self.slice(i.start, i.stop)
        L = len(self)
        if i < 0:
            i += L
        if not 0 <= i < L:
            raise IndexError("index out of range")
        return self.slice(i, i + 1).segs[0][0]

    def bytes_list(self):
        return [self[i] for i in range(len(self))]

    def _be_segs(self):
        """segments as big-endian (splitting multi-byte LE segments into bytes)."""
        out = []
        for v, n, le in self.segs:
            if le and n > 1:
                r = Rope([(v, n, le)])
                out.extend((r[i], 1) for i in range(n))
            else:
                out.append((v, n))
        return out

    def be(self):
        """int.from_bytes(self, 'big')"""
        total = None
        segs = self._be_segs()
        off = sum(n for _, n in segs)
        conc = 0
        for v, n in segs:
            off -= n
            if not is_sym(v):
                conc += v * (256 ** off)
                continue
            t = v if off == 0 else v * (256 ** off)
            total = t if total is None else total + t
        if total is None:
            return conc
        return total if conc == 0 else total + conc

    def le(self):
        """int.from_bytes(self, 'little')"""
        if len(self.segs) == 1 and (self.segs[0][2] or self.segs[0][1] == 1):
            return self.segs[0][0]
        total = 0
        for i in range(len(self)):
            total = total + self[i] * (256 ** i)
        return total

    def eq(self, other):
        other = as_rope(other)
        if len(self) != len(other):
            return False
        if len(self) == 0:
            return True
        if [(n, le) for _, n, le in self.segs] == [(n, le) for _, n, le in other.segs]:
            return land(*[eq(a[0], b[0]) for a, b in zip(self.segs, other.segs)])
        # align on common boundaries
        cuts = set()
        off = 0
        for _, n, _ in self.segs:
            off += n
            cuts.add(off)
        off = 0
        for _, n, _ in other.segs:
            off += n
            cuts.add(off)
        cuts = sorted(cuts)
        res = []
        prev = 0
        for c in cuts:
            res.append(eq(self.slice(prev, c).be(), other.slice(prev, c).be()))
            prev = c
        return land(*res)

    def sym_eq(self, other):
        if isinstance(other, (Rope, bytes, bytearray)):
            return self.eq(other)
        return False

    def __repr__(self):
        parts = []
        for v, n, le in self.segs:
            if is_sym(v):
                parts.append(f"<{v}:{n}{'le' if le else ''}>")
            else:
                parts.append(v.to_bytes(n, "big").hex())
        return "Rope(" + " ".join(parts) + ")"

    def mentions(self, term):
        """does any segment value syntactically contain `term`?"""
        tid = term.get_id()

        def walk(e, seen):
            if e.get_id() in seen:
                return False
            seen.add(e.get_id())
            if e.get_id() == tid:
                return True
            return any(walk(c, seen) for c in e.children())
        return any(is_sym(v) and walk(v, set()) for v, _, _ in self.segs)


class OBytes(SymVal):
    """opaque bytes of symbolic length: only len(), equality, hashing and hex() are understood"""
    __slots__ = ("val", "len")

    def __init__(self, val, length):
        self.val, self.len = val, length

    @staticmethod
    def sym(name):
        v, n = z3.Int(name + "_val"), z3.Int(name + "_len")
        sink().add(z3.And(n >= 0, v >= 0))
        return OBytes(v, n)

    def sym_len(self, ctx=None):
        return self.len

    def sym_eq(self, other):
        if isinstance(other, OBytes):
            return land(eq(self.len, other.len), eq(self.val, other.val))
        if isinstance(other, (Rope, bytes, bytearray)):
            r = as_rope(other)
            return land(eq(self.len, len(r)), eq(self.val, r.be()))
        return unlike("bytes", other)

    def sym_type(self):
        return bytes

    def __repr__(self):
        return f"OBytes({self.val},{self.len})"


def as_rope(x):
    if isinstance(x, Rope):
        return x
    if isinstance(x, (bytes, bytearray)):
        return Rope.of(bytes(x))
    raise TypeError(f"not bytes-like: {type(x)}")


def to_be(v, n):
    """n.to_bytes(n,'big') WITHOUT the range check (callers state it)."""
    if not is_sym(v):
        return Rope.of(int(v).to_bytes(n, "big"))
    return Rope([(v, n, False)])


def seg(v, n, le=False):
    """spec-side n-byte segment of value v (wraps concrete out-of-range values: such clauses are
    always guarded by an explicit range condition)"""
    if not is_sym(v):
        return Rope.of((int(v) % (256 ** n)).to_bytes(n, "little" if le else "big"))
    return Rope([(v, n, le)])


def to_le(v, n):
    if not is_sym(v):
        return Rope.of(int(v).to_bytes(n, "little"))
    return Rope([(v, n, True)])


def simplify_native(x):
    """Rope with only concrete segments -> bytes; z3 numerals -> Python ints."""
    if isinstance(x, Rope) and x.is_concrete():
        return x.native()
    if is_sym(x):
        if z3.is_int_value(x):
            return x.as_long()
        if z3.is_true(x):
            return True
        if z3.is_false(x):
            return False
    return x
