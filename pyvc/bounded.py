"""Bounded stand-in (labelled `bounded`, never counted as proved): the sidecar contract evaluated
at run time around the REAL function over a boundary corpus + seeded random inputs, optionally
with a chosen-output PRF.  Used when a path is UNDECIDED (construct outside the subset)."""
import random
import time
from . import prims as U
from .engine import Ctx
from .replay import ConcreteBuilder, replay_contract

BOUNDARY = [0, 1, 2, 2 ** 31 - 1, 2 ** 31, 2 ** 31 + 1, 2 ** 32 - 1, 2 ** 32, -1, 255, 256, U.N - 1, U.N, U.N + 1, 2 ** 256 - 1]


class RandomVals(dict):
    """valuation that invents a value the first time a name is asked for"""
    def __init__(self, rng):
        super().__init__()
        self.rng = rng


class RandomBuilder(ConcreteBuilder):
    def __init__(self, ctx, rng, vals=None):
        super().__init__(ctx, vals if vals is not None else {})
        self.rng = rng

    def int(self, name, lo=None, hi=None):
        if name not in self.vals:
            r = self.rng.random()
            cands = [b for b in BOUNDARY if (lo is None or b >= lo) and (hi is None or b < hi)]
            if lo is not None and hi is not None:
                cands += [lo, hi - 1, lo + 1, hi - 2]
                cands = [c for c in cands if lo <= c < hi]
            if r < 0.5 and cands:
                v = self.rng.choice(cands)
            else:
                l = lo if lo is not None else -(2 ** 33)
                h = hi if hi is not None else 2 ** 33
                if self.rng.random() < 0.3 and h - l > 2 ** 40:
                    v = l + self.rng.randrange(0, 2 ** 20)
                else:
                    v = self.rng.randrange(l, h)
            self.vals[name] = v
        return super().int(name, lo, hi)

    def bool(self, name):
        if name not in self.vals:
            self.vals[name] = self.rng.random() < 0.5
        return super().bool(name)

    def bytes(self, name, n):
        if name not in self.vals and n:
            r = self.rng.random()
            if r < 0.15:
                v = 0
            elif r < 0.3:
                v = 256 ** n - 1
            elif r < 0.45:
                v = self.rng.randrange(0, 256 ** max(1, n // 2))       # leading zero bytes
            else:
                v = self.rng.randrange(0, 256 ** n)
            self.vals[name] = v
        return super().bytes(name, n)

    def case(self, name, n):
        if name not in self.vals:
            self.vals[name] = self.rng.randrange(n)
        return super().case(name, n)


def bounded_contract(contract, seed, n=300, budget_s=20.0, prf_corners=True):
    rng = random.Random(seed * 7919 + hash(type(contract).__name__) % 1000)
    t0 = time.time()
    evals = 0
    skipped = 0
    for i in range(n):
        if time.time() - t0 > budget_s:
            break
        ctx = Ctx([])
        RB = RandomBuilder(ctx, rng)
        try:
            contract.inputs(RB)
        except Exception:
            skipped += 1
            continue
        if not RB.ok:
            skipped += 1
            continue
        vals = dict(RB.vals)
        stubs = []
        if prf_corners and rng.random() < 0.5:
            k = vals.get("self_k", 1)
            il = rng.choice([0, 1, U.N - 1, U.N, U.N + 1, 2 ** 256 - 1, (U.N - k) % U.N, rng.randrange(2 ** 256)])
            stubs = [["hmac512*", [], il.to_bytes(32, "big").hex()]]
        r = replay_contract(contract, vals, stubs)
        if r.get("confirmed") is None:
            skipped += 1
            continue
        evals += 1
        if r.get("confirmed"):
            return dict(verdict="VIOLATED", evaluations=evals, model=vals, stubs=stubs, replay=r,
                        bound=f"{n} seeded samples (boundary corpus + random), seed {seed}")
    return dict(verdict="HELD", evaluations=evals, skipped=skipped,
                bound=f"{n} seeded samples (boundary corpus + random), seed {seed}, budget {budget_s}s")
