"""Bounded stand-in (labelled `bounded`, never counted as proved): the sidecar contract evaluated
at run time around the REAL function over a boundary corpus + seeded random inputs, optionally
with a chosen-output PRF.  Used when a path is UNDECIDED (construct outside the subset)."""
import random
import zlib
import time
from . import prims as U
from .engine import Ctx
from .replay import ConcreteBuilder, replay_contract

BOUNDARY = [0, 1, 2, 2 ** 31 - 1, 2 ** 31, 2 ** 31 + 1, 2 ** 32 - 1, 2 ** 32, -1, 255, 256, U.N - 1, U.N, U.N + 1, 2 ** 256 - 1]


class RandomVals(dict):
    """valuation that invents a value the first time a name is asked for"""
    def __init__(self, rng):
        super().__init__()
        self.rng = rng


# domain values the uniform sampler would practically never draw (matched by substring of the input's name)
DEFAULT_HINTS = {
    "version": [0x0488B21E, 0x0488ADE4, 0x043587CF, 0x04358394, 0x049D7CB2, 0x049D7878, 0x044A5262, 0x044A4E28,
                0x04B24746, 0x04B2430C, 0x045F1CF6, 0x045F18BC],
    "depth": [0, 1, 127, 128, 129, 254, 255],
}


class RandomBuilder(ConcreteBuilder):
    def __init__(self, ctx, rng, vals=None):
        super().__init__(ctx, vals if vals is not None else {})
        self.rng = rng
        self.hints = {}

    def hint(self, name, values):
        self.hints[name] = list(values)

    def int(self, name, lo=None, hi=None):
        if name not in self.vals and name not in self.hints:
            for key, vs in DEFAULT_HINTS.items():
                if key in name:
                    self.hints[name] = [v for v in vs if (lo is None or v >= lo) and (hi is None or v < hi)]
        if name not in self.vals and self.hints.get(name) and self.rng.random() < (0.7 if "version" in name else 0.35):
            self.vals[name] = self.rng.choice(self.hints[name])
        if name not in self.vals:
            r = self.rng.random()
            cands = [b for b in BOUNDARY if (lo is None or b >= lo) and (hi is None or b < hi)]
            if lo is not None and hi is not None:
                cands += [lo, hi - 1, lo + 1, hi - 2]
                cands = [c for c in cands if lo <= c < hi]
            if r < 0.5 and cands:
                v = self.rng.choice(cands)
            else:
                l = lo if lo is not None else -(2 ** 33)
                h = hi if hi is not None else 2 ** 33
                if self.rng.random() < 0.3 and h - l > 2 ** 40:
                    v = l + self.rng.randrange(0, 2 ** 20)
                else:
                    v = self.rng.randrange(l, h)
            self.vals[name] = v
        return super().int(name, lo, hi)

    def bool(self, name):
        if name not in self.vals:
            self.vals[name] = self.rng.random() < 0.5
        return super().bool(name)

    def bytes(self, name, n):
        if name not in self.vals and n:
            r = self.rng.random()
            if r < 0.15:
                v = 0
            elif r < 0.3:
                v = 256 ** n - 1
            elif r < 0.45:
                v = self.rng.randrange(0, 256 ** max(1, n // 2))       # leading zero bytes
            else:
                v = self.rng.randrange(0, 256 ** n)
            self.vals[name] = v
        return super().bytes(name, n)

    def case(self, name, n):
        if name not in self.vals:
            self.vals[name] = self.rng.randrange(n)
        return super().case(name, n)


def _perturbations(v, rng):
    """neighbours, single-bit flips and (for scalars) the negated key: same x coordinate, other parity"""
    if isinstance(v, bool):
        return [not v]
    cands = [v + 1, v - 1, v + 2 ** 8, v ^ 1, v + rng.randrange(1, 2 ** 64)]
    if 0 <= v < U.N:
        cands += [U.N - v, U.N - 2 - v]        # the negated scalar, for either convention k = v or k = v mod (n-1) + 1
    if v > 2 ** 64:
        cands += [v ^ (1 << rng.randrange(0, 256))]
    return cands


def _interference_calls(contract, vals, stubs, rng, k=4, exhaustive=False):
    """exhaustive: every one-variable perturbation of every scalar input (done for the first samples of each
    contract, so that the outcome does not hang on the draw); otherwise k random ones"""
    from .replay import ConcreteBuilder, Materializer, install_stubs
    from .verify import resolve_target
    names = [n for n, v in vals.items() if isinstance(v, (bool, int))]
    if not names:
        return
    if exhaustive:
        plan = [(name, c) for name in names for c in _perturbations(vals[name], rng)][:80]
    else:
        plan = [(name, rng.choice(_perturbations(vals[name], rng))) for name in rng.sample(names, min(k, len(names)))]
    undo = install_stubs(stubs)
    t0 = time.time()
    try:
        for name, c in plan:
            if time.time() - t0 > 4.0:
                break
            v2 = dict(vals)
            v2[name] = c
            ctx = Ctx([])
            CB = ConcreteBuilder(ctx, v2)
            try:
                args, kwargs, I = contract.inputs(CB)
            except Exception:
                continue
            if not CB.ok:
                continue
            M = Materializer(ctx)
            f = resolve_target(contract.target)
            try:
                rargs = [M.mat(a) for a in args]
                rkw = {kk: M.mat(x) for kk, x in kwargs.items()}
                if hasattr(contract, "run_real"):
                    contract.run_real(f, rargs, rkw, I)
                else:
                    f(*rargs, **rkw)
            except BaseException:
                pass
    finally:
        undo()


def bounded_contract(contract, seed, n=300, budget_s=20.0, prf_corners=True, ignore=()):
    rng = random.Random(seed * 7919 + zlib.crc32(type(contract).__name__.encode()) % 1000)     # (str hash is salted per process)
    t0 = time.time()
    evals = 0
    skipped = 0
    t_interf = 0.0
    for i in range(n):
        if time.time() - t0 > budget_s:
            break
        ctx = Ctx([])
        RB = RandomBuilder(ctx, rng)
        try:
            contract.inputs(RB)
        except Exception:
            skipped += 1
            continue
        if not RB.ok:
            skipped += 1
            continue
        vals = dict(RB.vals)
        stubs = []
        if prf_corners and rng.random() < 0.5:
            k = vals.get("self_k", 1)
            il = rng.choice([0, 1, U.N - 1, U.N, U.N + 1, 2 ** 256 - 1, (U.N - k) % U.N, rng.randrange(2 ** 256)])
            side = rng.choice(["L", "L", "R"])           # force the left (key) half or the right half of the PRF output
            stubs = [["hmac512*", [], f"{side}:{il.to_bytes(32, 'big').hex()}"]]
        # interference probe: first call the real function on one-variable perturbations of the sample
        # (fresh objects), so that state shared between calls (module / class-level caches keyed by a
        # subset of the inputs) is poisoned before the call that is checked
        try:
            ti = time.time()
            _interference_calls(contract, vals, stubs, rng, exhaustive=(evals < 4 or i % 8 == 0) and t_interf < 0.4 * budget_s)
            t_interf += time.time() - ti
        except Exception:
            pass
        import signal

        def _alarm(sig, frm):
            raise TimeoutError("replay exceeded its time slice")
        old = signal.signal(signal.SIGALRM, _alarm)
        signal.alarm(15)
        try:
            r = replay_contract(contract, vals, stubs)
        except TimeoutError:
            r = dict(confirmed=None, detail="timeout")
        finally:
            signal.alarm(0)
            signal.signal(signal.SIGALRM, old)
        if r.get("confirmed") is None:
            skipped += 1
            continue
        evals += 1
        if r.get("confirmed") and ignore and set(r.get("failed") or ["?"]) <= set(ignore):
            continue            # only clauses listed as known findings failed: reported by the deductive item
        if r.get("confirmed"):
            return dict(verdict="VIOLATED", evaluations=evals, model=vals, stubs=stubs, replay=r,
                        bound=f"{n} seeded samples (boundary corpus + random), seed {seed}")
    return dict(verdict="HELD", evaluations=evals, skipped=skipped,
                bound=f"{n} seeded samples (boundary corpus + random), seed {seed}, budget {budget_s}s")
