"""Low-bits mode for unbounded Python integers (DESIGN §2.2): a value is tracked as its residue mod 2^32
(a z3 bit-vector) plus an `exact` flag (the value IS that residue, i.e. it lies in [0, 2^32)).
+  -  &  |  ^  ~  << commute with truncation and are allowed on inexact values;  >>, comparisons,
indexing and to_bytes are allowed only on exact ones.  This is the precise statement of "machine
arithmetic treated as mathematical" for ripemd.py, whose intermediates are unbounded and may be negative."""
import ast
import z3
from . import logic as L
from .logic import SymVal, is_sym, simplify_native
from .engine import Undecided, PyRaise

W = 32
MASK = (1 << W) - 1


def bv(x):
    if isinstance(x, LB):
        return x.v
    if isinstance(x, bool):
        x = int(x)
    if isinstance(x, int):
        return z3.BitVecVal(x & MASK, W)
    if is_sym(x) and z3.is_bv(x):
        return x
    if is_sym(x) and z3.is_int(x):
        # BV2Int(w) -> w
        if z3.is_app(x) and x.decl().kind() == z3.Z3_OP_BV2INT:
            return x.arg(0)
        return z3.Int2BV(x, W)
    raise Undecided(f"low-bits mode: {type(x).__name__}")


def is_exact(x):
    if isinstance(x, LB):
        return x.exact
    if isinstance(x, int):
        return 0 <= x <= MASK
    return False


class LB(SymVal):
    __slots__ = ("v", "exact")

    def __init__(self, v, exact=False):
        self.v = z3.simplify(v) if False else v
        self.exact = exact

    @staticmethod
    def fresh(name, exact=False):
        return LB(z3.BitVec(name, W), exact)

    def sym_type(self):
        return int

    def sym_invert(self):
        return LB(~self.v, False)

    def sym_binop(self, ctx, op, other, reflected):
        o = simplify_native(other)
        if isinstance(op, (ast.LShift, ast.RShift)):
            if reflected:
                raise Undecided("shift BY a low-bits value")
            if not isinstance(o, int) or o < 0:
                raise Undecided("shift by a non-constant")
            if isinstance(op, ast.LShift):
                return LB(self.v << o if o < W else z3.BitVecVal(0, W), False)
            if not self.exact:
                raise Undecided("low-bits mode: >> on a value that is not known to lie in [0, 2^32)")
            return LB(z3.LShR(self.v, o) if o < W else z3.BitVecVal(0, W), True)
        a, b = (bv(o), self.v) if reflected else (self.v, bv(o))
        ea, eb = (is_exact(o), self.exact) if reflected else (self.exact, is_exact(o))
        if isinstance(op, ast.Add):
            return LB(a + b, False)
        if isinstance(op, ast.Sub):
            return LB(a - b, False)
        if isinstance(op, ast.BitAnd):
            return LB(a & b, ea or eb)          # x & m with 0 <= m < 2^32 is exactly (x mod 2^32) & m
        if isinstance(op, ast.BitOr):
            return LB(a | b, ea and eb)
        if isinstance(op, ast.BitXor):
            return LB(a ^ b, ea and eb)
        if isinstance(op, ast.Mult) and isinstance(o, int):
            return LB(a * b, False)
        raise Undecided("low-bits mode: operator " + type(op).__name__)

    def sym_compare(self, ctx, op, other, reflected):
        raise Undecided("low-bits mode: comparison")

    def sym_getattr(self, ctx, name):
        if name == "to_bytes":
            def to_bytes(length, byteorder="big", **kw):
                if not self.exact:
                    raise Undecided("low-bits mode: to_bytes of a value that is not known to lie in [0, 2^32)")
                if length != 4:
                    raise Undecided("low-bits to_bytes with length != 4")
                return L.Rope([(z3.BV2Int(self.v), 4, byteorder == "little")])
            return to_bytes
        raise Undecided("low-bits value attribute " + name)

    def __repr__(self):
        return f"LB({'=' if self.exact else '~'}{self.v})"
