"""Low-bits mode for unbounded Python integers (DESIGN §2.2): a value is tracked as its residue mod 2^32
(a z3 bit-vector) plus an `exact` flag (the value IS that residue, i.e. it lies in [0, 2^32)).
+  -  &  |  ^  ~  << commute with truncation and are allowed on inexact values;  >>, comparisons,
indexing and to_bytes are allowed only on exact ones.  This is the precise statement of "machine
arithmetic treated as mathematical" for ripemd.py, whose intermediates are unbounded and may be negative."""
import ast
import z3
from . import logic as L
from .logic import SymVal, is_sym, simplify_native
from .engine import Undecided, PyRaise

W = 32
MASK = (1 << W) - 1


def bv(x):
    if isinstance(x, LB):
        return x.v
    if isinstance(x, bool):
        x = int(x)
    if isinstance(x, int):
        return z3.BitVecVal(x & MASK, W)
    if is_sym(x) and z3.is_bv(x):
        return x
    if is_sym(x) and z3.is_int(x):
        # BV2Int(w) -> w
        if z3.is_app(x) and x.decl().kind() == z3.Z3_OP_BV2INT:
            return x.arg(0)
        return z3.Int2BV(x, W)
    raise Undecided(f"low-bits mode: {type(x).__name__}")


def is_exact(x):
    if isinstance(x, LB):
        return x.exact
    if isinstance(x, int):
        return 0 <= x <= MASK
    return False


def _bits_of(x):
    if isinstance(x, LB):
        return x.bits if x.exact else W
    if isinstance(x, int) and 0 <= x <= MASK:
        return x.bit_length()
    return W


class LB(SymVal):
    """`bits`: for exact values an upper bound on the bit length (value < 2^bits), so that a left shift that
    cannot leave the 32-bit window keeps the value exact"""
    __slots__ = ("v", "exact", "bits", "origin")

    def __init__(self, v, exact=False, bits=W, origin=None):
        self.v = v
        self.exact = exact
        self.bits = min(bits, W) if exact else W
        self.origin = origin        # (table string, index value): this value is ord(table[index]), index in range

    @staticmethod
    def fresh(name, exact=False, bits=W):
        x = LB(z3.BitVec(name, W), exact, bits)
        if exact and bits < W:
            L.sink().add(z3.ULT(x.v, z3.BitVecVal(1 << bits, W)))
        return x

    def sym_truthy(self, ctx):
        if not self.exact:
            raise Undecided("low-bits mode: truthiness of a value that is not known to lie in [0, 2^32)")
        return self.v != 0

    def as_int(self):
        if not self.exact:
            raise Undecided("low-bits mode: integer value of an inexact value")
        return z3.BV2Int(self.v)

    def sym_type(self):
        return int

    def sym_invert(self):
        return LB(~self.v, False)

    def sym_binop(self, ctx, op, other, reflected):
        o = simplify_native(other)
        if isinstance(op, (ast.LShift, ast.RShift)):
            if reflected:
                raise Undecided("shift BY a low-bits value")
            if not isinstance(o, int) or o < 0:
                raise Undecided("shift by a non-constant")
            if isinstance(op, ast.LShift):
                keeps = self.exact and self.bits + o <= W
                return LB(self.v << o if o < W else z3.BitVecVal(0, W), keeps, self.bits + o)
            if not self.exact:
                raise Undecided("low-bits mode: >> on a value that is not known to lie in [0, 2^32)")
            return LB(z3.LShR(self.v, o) if o < W else z3.BitVecVal(0, W), True, max(0, self.bits - o))
        a, b = (bv(o), self.v) if reflected else (self.v, bv(o))
        ea, eb = (is_exact(o), self.exact) if reflected else (self.exact, is_exact(o))
        if isinstance(op, ast.Add):
            return LB(a + b, False)
        if isinstance(op, ast.Sub):
            return LB(a - b, False)
        ba, bb = (_bits_of(o), _bits_of(self)) if reflected else (_bits_of(self), _bits_of(o))
        if isinstance(op, ast.BitAnd):
            # x & m with 0 <= m < 2^32 is exactly (x mod 2^32) & m
            return LB(a & b, ea or eb, min(ba if ea else W, bb if eb else W))
        if isinstance(op, ast.BitOr):
            return LB(a | b, ea and eb, max(ba, bb))
        if isinstance(op, ast.BitXor):
            return LB(a ^ b, ea and eb, max(ba, bb))
        if isinstance(op, ast.Mult) and isinstance(o, int):
            return LB(a * b, False)
        raise Undecided("low-bits mode: operator " + type(op).__name__)

    def _static_compare(self, op, o, reflected):
        """comparison of a table character (origin known) with a constant, when every table entry agrees"""
        if self.origin is None or not isinstance(o, int) or isinstance(o, bool):
            return None
        import operator
        fn = {ast.Lt: operator.lt, ast.LtE: operator.le, ast.Gt: operator.gt, ast.GtE: operator.ge,
              ast.Eq: operator.eq, ast.NotEq: operator.ne}.get(type(op))
        if fn is None:
            return None
        res = {(fn(o, ord(ch)) if reflected else fn(ord(ch), o)) for ch in self.origin[0]}
        return res.pop() if len(res) == 1 else None

    def sym_compare(self, ctx, op, other, reflected):
        o = simplify_native(other)
        st = self._static_compare(op, o, reflected)
        if st is not None:
            return st
        if not self.exact:
            raise Undecided("low-bits mode: comparison of a value that is not known to lie in [0, 2^32)")
        if isinstance(o, LB):
            if not o.exact:
                raise Undecided("low-bits mode: comparison with an inexact value")
            ov = o.v
        elif isinstance(o, int):
            # exact values are non-negative and below 2^32
            if o < 0 or o > MASK:
                lt = o > MASK      # self < o ?
                table = {ast.Lt: lt, ast.LtE: lt, ast.Gt: not lt, ast.GtE: not lt, ast.Eq: False, ast.NotEq: True}
                if reflected:
                    table = {ast.Lt: not lt, ast.LtE: not lt, ast.Gt: lt, ast.GtE: lt, ast.Eq: False, ast.NotEq: True}
                return table[type(op)]
            ov = z3.BitVecVal(o, W)
        elif o is None:
            return {ast.Eq: False, ast.NotEq: True, ast.Is: False, ast.IsNot: True}.get(type(op), NotImplemented)
        else:
            return NotImplemented
        a, b = (ov, self.v) if reflected else (self.v, ov)
        if isinstance(op, ast.Lt):
            return z3.ULT(a, b)
        if isinstance(op, ast.LtE):
            return z3.ULE(a, b)
        if isinstance(op, ast.Gt):
            return z3.UGT(a, b)
        if isinstance(op, ast.GtE):
            return z3.UGE(a, b)
        if isinstance(op, ast.Eq):
            return a == b
        if isinstance(op, ast.NotEq):
            return a != b
        return NotImplemented

    def sym_eq(self, other):
        o = simplify_native(other)
        st = self._static_compare(ast.Eq(), o, False)
        if st is not None:
            return st
        if isinstance(o, LB):
            if self.exact and o.exact:
                return self.v == o.v
            raise Undecided("equality of inexact low-bits values")
        if isinstance(o, int) and not isinstance(o, bool):
            if not self.exact:
                raise Undecided("equality of an inexact low-bits value")
            return self.v == z3.BitVecVal(o, W) if 0 <= o <= MASK else False
        return False

    def sym_getattr(self, ctx, name):
        if name == "to_bytes":
            def to_bytes(length, byteorder="big", **kw):
                if kw or byteorder not in ("big", "little"):
                    raise Undecided("low-bits to_bytes with unmodelled arguments")
                if not self.exact:
                    raise Undecided("low-bits mode: to_bytes of a value that is not known to lie in [0, 2^32)")
                if length != 4:
                    raise Undecided("low-bits to_bytes with length != 4")
                return L.Rope([(z3.BV2Int(self.v), 4, byteorder == "little")])
            return to_bytes
        raise Undecided("low-bits value attribute " + name)

    def __repr__(self):
        return f"LB({'=' if self.exact else '~'}{self.v})"
