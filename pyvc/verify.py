"""Driver: verifies one real function against its sidecar contract, path by path."""
import importlib
import time
import os
import traceback
import types
import z3

from . import logic as L
from . import engine as E
from . import models as M       # noqa: F401  (installs the native models)
from .logic import is_sym, FactSink, Rope
from .engine import Ctx, PyRaise, Undecided, PathLimit, PathCut, Ref, HObj, HList, HDict, HBytesIO, SOURCE

PROVED, REFUTED, UNDECIDED = "PROVED", "REFUTED", "UNDECIDED"


class Outcome:
    def __init__(self, kind, value=None, exc_cls=None):
        self.kind = kind
        self.value = value
        self.exc_cls = exc_cls

    @property
    def returned(self):
        return self.kind == "return"

    @property
    def raised(self):
        return self.kind == "raise"

    def raised_a(self, cls):
        return self.kind == "raise" and issubclass(self.exc_cls, cls)

    def __repr__(self):
        return f"Outcome({self.kind}, {self.exc_cls.__name__ if self.exc_cls else self.value})"


class NS:
    def __init__(self, **kw):
        self.__dict__.update(kw)


class Builder:
    """symbolic inputs (proof mode)"""
    concrete = False

    def __init__(self, ctx):
        self.ctx = ctx
        self.vars = {}

    def hint(self, name, values):
        """interesting values of an input (used by the bounded stand-in's sampler only)"""

    def int(self, name, lo=None, hi=None):
        v = z3.Int(name)
        self.vars[name] = v
        if lo is not None:
            self.ctx.assume(v >= lo)
        if hi is not None:
            self.ctx.assume(v < hi)
        return v

    def bool(self, name):
        v = z3.Bool(name)
        self.vars[name] = v
        return v

    def bytes(self, name, n):
        if n == 0:
            return b""
        v = z3.Int(name)
        self.vars[name] = v
        self.ctx.assume(z3.And(v >= 0, v < 256 ** n))
        return Rope([(v, n, False)])

    def obj(self, cls, **fields):
        return self.ctx.new_obj(cls, **fields)

    def list_sym(self, name):
        return self.ctx.new_list([], base=name)

    def list(self, items):
        return self.ctx.new_list(items)

    def assume(self, f):
        self.ctx.assume(f)

    def case(self, name, n):
        """finite case split 0..n-1 as a symbolic choice resolved by branching"""
        v = self.int(name, 0, n)
        for i in range(n - 1):
            if self.ctx.branch(v == i):
                return i
        return n - 1


def resolve_target(target):
    parts = target.split(".")
    for i in range(len(parts), 0, -1):
        try:
            mod = importlib.import_module(".".join(parts[:i]))
        except ImportError:
            continue
        obj = mod
        rest = parts[i:]
        for j, p in enumerate(rest):
            if isinstance(obj, type):
                # the raw class attribute (function / classmethod / staticmethod / property), wherever in the MRO it is
                # defined: a method moved to a base class or a mixin is still the method of this class
                for k in obj.__mro__:
                    if p in vars(k):
                        obj = vars(k)[p]
                        break
                else:
                    raise AttributeError(f"{target}: {obj.__name__} has no attribute {p}")
            else:
                obj = getattr(obj, p)
        if isinstance(obj, (classmethod, staticmethod)):
            obj = obj.__func__
        if isinstance(obj, property):
            obj = obj.fget
        return obj
    raise ImportError(target)


def _same(a, b):
    a, b = L.simplify_native(a), L.simplify_native(b)
    if a is b:
        return True
    if is_sym(a) and is_sym(b):
        return a.eq(b)
    if isinstance(a, Rope) and isinstance(b, Rope):
        return len(a.segs) == len(b.segs) and all(_same(x[0], y[0]) and x[1:] == y[1:] for x, y in zip(a.segs, b.segs))
    if isinstance(a, Ref) and isinstance(b, Ref):
        return a.oid == b.oid
    if isinstance(a, E.ModelObj) and isinstance(b, E.ModelObj):
        return a.kind == b.kind and set(a.f) == set(b.f) and all(_same(a.f[k], b.f[k]) for k in a.f)
    if type(a).__name__ == "SymPt" and type(b).__name__ == "SymPt":
        return _same(a.t, b.t) if (is_sym(a.t) or is_sym(b.t)) else a.t == b.t
    if isinstance(a, tuple) and isinstance(b, tuple):
        return len(a) == len(b) and all(_same(x, y) for x, y in zip(a, b))
    if is_sym(a) or is_sym(b) or isinstance(a, (Rope, Ref)) or isinstance(b, (Rope, Ref)):
        return False
    try:
        return type(a) == type(b) and a == b
    except Exception:
        return False


def heap_diff(snap, heap):
    """locations of pre-existing objects whose value changed: set of (oid, field)"""
    d = set()
    for oid, old in snap.items():
        new = heap[oid]
        if isinstance(old, HObj):
            for k in set(old.fields) | set(new.fields):
                if k not in old.fields or k not in new.fields or not _same(old.fields[k], new.fields[k]):
                    d.add((oid, k))
        elif isinstance(old, HList):
            if old.base != new.base or len(old.items) != len(new.items) or \
                    not all(_same(x, y) for x, y in zip(old.items, new.items)):
                d.add((oid, "items"))
        elif isinstance(old, HDict):
            if set(old.d) != set(new.d) or not all(_same(old.d[k], new.d[k]) for k in old.d):
                d.add((oid, "items"))
        elif isinstance(old, HBytesIO):
            if old.pos != new.pos:
                d.add((oid, "pos"))
    return d


def model_to_dict(m, vars_):
    out = {}
    for name, v in vars_.items():
        try:
            val = m.eval(v, model_completion=True)
            if z3.is_int_value(val):
                out[name] = val.as_long()
            elif z3.is_true(val):
                out[name] = True
            elif z3.is_false(val):
                out[name] = False
            else:
                out[name] = str(val)
        except Exception:
            out[name] = None
    return out


def eval_rope(m, r):
    """evaluate a rope under a model -> bytes"""
    out = b""
    for v, n, le in r.segs:
        if is_sym(v):
            val = m.eval(v, model_completion=True)
            iv = val.as_long() if z3.is_int_value(val) else 0
        else:
            iv = v
        iv %= 256 ** n
        out += iv.to_bytes(n, "little" if le else "big")
    return out


_SEQ_CACHE = {}


def mentions_seq(e):
    """does the term contain a sub-term of sequence sort?"""
    if not is_sym(e):
        return False
    todo = [e]
    seen = set()
    while todo:
        x = todo.pop()
        i = x.get_id()
        if i in seen:
            continue
        seen.add(i)
        hit = _SEQ_CACHE.get(i)
        if hit is True:
            return True
        if hit is False:
            continue
        try:
            if x.sort().kind() == z3.Z3_SEQ_SORT:
                _SEQ_CACHE[e.get_id()] = True
                return True
        except Exception:
            pass
        todo.extend(x.children())
    _SEQ_CACHE[e.get_id()] = False
    return False


class _Watchdog:
    """one daemon thread per process: interrupts the z3 context when the query in progress overruns its wall-clock
    deadline (z3's own `timeout` is a soft limit that some tactics do not poll: minutes on a 10 s budget observed)"""
    def __init__(self):
        import threading
        self.lock = threading.Lock()
        self.deadline = None
        self.ctx = None
        self.thread = None
        self.pid = None

    def _run(self):
        while True:
            time.sleep(0.5)
            with self.lock:
                if self.deadline is not None and time.time() > self.deadline and self.ctx is not None:
                    try:
                        self.ctx.interrupt()
                    except Exception:
                        pass
                    self.deadline = time.time() + 5.0      # again, should the first interrupt be missed

    def arm(self, ctx, seconds):
        import threading
        if self.thread is None or self.pid != os.getpid() or not self.thread.is_alive():
            self.lock = threading.Lock()
            self.pid = os.getpid()
            self.thread = threading.Thread(target=self._run, daemon=True)
            self.thread.start()
        with self.lock:
            self.ctx = ctx
            self.deadline = time.time() + seconds

    def disarm(self):
        with self.lock:
            self.deadline = None


WATCHDOG = _Watchdog()


def hard_check(solver, timeout_ms):
    """solver.check() under the wall-clock watchdog; an interrupted query is `unknown`"""
    WATCHDOG.arm(solver.ctx, timeout_ms / 1000.0 * 1.5 + 3.0)
    try:
        return solver.check()
    except z3.Z3Exception:
        return z3.unknown
    finally:
        WATCHDOG.disarm()


class _Budget:
    """wall-clock spent on UNDECIDED (timed-out) queries of the contract being verified: when a changed function makes
    query after query run into its timeout, the remaining obligations are not attempted (they are UNDECIDED at once
    and the bounded stand-in decides), so a check stays within minutes instead of hours"""
    spent = 0.0
    limit = None
    feas_spent = 0.0        # wall-clock of path-feasibility queries that ran into their limit (engine.Ctx.feasible)
    feas_limit = 90.0


def check_valid(ctx, formula, timeout_ms, want_model_vars=None, uf_apps=None):
    """is `pc & facts => formula` valid?"""
    formula = L._b(formula) if not isinstance(formula, bool) else formula
    t0 = time.time()
    if formula is True:
        return dict(verdict=PROVED, backend="fold", time=0.0)
    if _Budget.limit is not None and _Budget.spent > _Budget.limit:
        return dict(verdict=UNDECIDED, backend="z3", time=0.0, reason="solver: time budget of this contract exhausted by earlier timeouts")
    r = _check_valid(ctx, formula, timeout_ms, want_model_vars, uf_apps)
    if r["verdict"] == UNDECIDED:
        _Budget.spent += time.time() - t0
    return r


def _check_valid(ctx, formula, timeout_ms, want_model_vars=None, uf_apps=None):
    t0 = time.time()
    if formula is not False and not mentions_seq(formula) and any(mentions_seq(f) for f in ctx.sink.facts + ctx.pc):
        # a goal without sequence terms is first tried with the sequence-free hypotheses only (dropping hypotheses is
        # sound for a validity proof; it keeps the sequence solver out of pure arithmetic / bit-vector goals)
        s0 = z3.Solver()
        s0.set("timeout", timeout_ms)
        s0.set("random_seed", 7)
        for f in ctx.sink.facts:
            if not mentions_seq(f):
                s0.add(f)
        for f in ctx.pc:
            if not mentions_seq(f):
                s0.add(f)
        s0.add(z3.Not(formula))
        if hard_check(s0, timeout_ms) == z3.unsat:
            return dict(verdict=PROVED, backend="z3", time=time.time() - t0)
    s = z3.Solver()
    s.set("timeout", timeout_ms)
    s.set("random_seed", 7)
    for f in ctx.sink.facts:
        s.add(f)
    for f in ctx.pc:
        s.add(f)
    if formula is False:
        neg = z3.BoolVal(True)
    else:
        neg = z3.Not(formula)
    s.add(neg)
    r = hard_check(s, timeout_ms)
    if r == z3.unknown:
        # one retry with a different seed and twice the time before giving up (verdicts must not flip under load)
        s.set("random_seed", 41)
        s.set("timeout", 2 * timeout_ms)
        r = hard_check(s, 2 * timeout_ms)
    dt = time.time() - t0
    if r == z3.unsat:
        return dict(verdict=PROVED, backend="z3", time=dt)
    if r == z3.sat:
        m = s.model()
        res = dict(verdict=REFUTED, backend="z3", time=dt,
                   model=model_to_dict(m, want_model_vars or {}))
        stubs = []
        for name, ropes, out in (uf_apps or []):
            try:
                stubs.append([name, [eval_rope(m, x).hex() for x in ropes], eval_rope(m, out).hex()])
            except Exception:
                pass
        res["stubs"] = stubs
        return res
    try:
        why = s.reason_unknown()
    except z3.Z3Exception:
        why = "interrupted"
    return dict(verdict=UNDECIDED, backend="z3", time=dt, reason="solver: " + why,
                smt2=s.to_smt2() if len(ctx.pc) < 400 else None)


def _split(target):
    parts = target.split(".")
    for i in range(len(parts), 0, -1):
        try:
            importlib.import_module(".".join(parts[:i]))
            return ".".join(parts[:i]), ".".join(parts[i:])
        except ImportError:
            continue
    raise ImportError(target)


def verify_contract(contract, timeout_ms=10000, max_paths=400, only=None):
    """returns dict(obligations=[...], paths=n, calls=..., undecided=[...])"""
    _Budget.spent = 0.0
    _Budget.feas_spent = 0.0
    _Budget.limit = max(60.0, 3.0 * timeout_ms / 1000.0)
    f = resolve_target(contract.target)
    results = []
    work = [[]]
    npaths = 0
    calls = set()
    effects_seen = []
    t_start = time.time()
    opts = dict(getattr(contract, "opts", {}) or {})
    opts.setdefault("no_summary", set())
    opts["no_summary"] = set(opts["no_summary"]) | {contract.target}
    if hasattr(contract, "loops"):
        import ast as _ast
        fd = SOURCE.funcdef(f.__module__, f.__qualname__)       # where the function is DEFINED (it may be re-exported / inherited)
        nodes = [n for n in _ast.walk(fd) if isinstance(n, (_ast.For, _ast.While))]
        nodes.sort(key=lambda n: (n.lineno, n.col_offset))
        lm = {}
        for ordinal, spec in contract.loops.items():
            if ordinal >= len(nodes):
                results.append(dict(name=f"loop{ordinal}", clause="loops", verdict=UNDECIDED,
                                    reason=f"function has only {len(nodes)} loops; sidecar invariant for loop {ordinal} has no anchor"))
                continue
            lm[id(nodes[ordinal])] = spec
        opts["loops"] = lm
    opts.setdefault("no_fold", set())
    opts["no_fold"] = set(opts["no_fold"]) | {contract.target}
    while work:
        prefix = work.pop()
        npaths += 1
        if npaths > max_paths:
            results.append(dict(name="paths", verdict=UNDECIDED, reason=f"more than {max_paths} paths", path=npaths))
            break
        ctx = Ctx(prefix, timeout_ms=timeout_ms, opts=opts)
        B = Builder(ctx)
        pid = f"p{npaths}"
        try:
            try:
                inp = contract.inputs(B)
            except PathLimit:
                work.extend(ctx.alts)
                continue
            args, kwargs, I = inp
            snap = ctx.snapshot()
            ctx.entry_snapshot = snap
            if hasattr(contract, "run"):
                runner = lambda: contract.run(ctx, f, args, kwargs, I)      # noqa: E731
            else:
                runner = lambda: ctx.call_value(f, args, kwargs)            # noqa: E731
            cut = False
            try:
                val = runner()
                out = Outcome("return", value=val)
            except PyRaise as e:
                out = Outcome("raise", exc_cls=e.exc_cls)
                out.in_loop_step = ctx.in_loop_step
            except PathLimit:
                work.extend(ctx.alts)
                continue
            except PathCut:
                cut = True
            for r0 in ctx.side_results:
                r0 = dict(r0)
                r0["name"] = f"{r0['name']}@{pid}"
                r0["outcome"] = "loop obligation"
                results.append(r0)
            if cut:
                work.extend(ctx.alts)
                continue
            work.extend(ctx.alts)
            n_alts = len(ctx.alts)
            for c in ctx.calls:
                calls.add(c)
            # vacuity: the path must be feasible
            if not ctx.feasible(z3.BoolVal(True)):
                continue
            # post-conditions
            obls = []
            ctx.post_mode = True
            try:
                for item in contract.post(ctx, I, out):
                    obls.append(item)
            except PathLimit:
                # reading the result forked (e.g. a weak reference that may be dead): explore the other side
                work.extend(ctx.alts[n_alts:])
                continue
            finally:
                ctx.post_mode = False
            if len(ctx.alts) != n_alts:
                work.extend(ctx.alts[n_alts:])
            # frame
            allowed = set(contract.modifies(ctx, I)) if hasattr(contract, "modifies") else set()
            diff = heap_diff(snap, ctx.heap)
            bad = diff - allowed
            obls.append(("frame", not bad if not bad else False))
            out_repr = repr(out)[:2000]
            for name, formula in obls:
                if only and not any(name.startswith(o) for o in only):
                    continue
                r = check_valid(ctx, formula, timeout_ms, B.vars, getattr(ctx.sink, "uf_apps", []))
                r["name"] = f"{name}@{pid}"
                r["clause"] = name
                r["outcome"] = out_repr
                r["decisions"] = list(ctx.taken)
                if name == "frame" and bad:
                    r["frame_violation"] = sorted(f"{oid}.{fld}" for oid, fld in bad)
                results.append(r)
        except Undecided as u:
            work.extend(ctx.alts)
            results.append(dict(name=f"path@{pid}", clause="path", verdict=UNDECIDED, reason=str(u), decisions=list(ctx.taken)))
        except Exception as ex:
            work.extend(ctx.alts)
            results.append(dict(name=f"path@{pid}", clause="path", verdict=UNDECIDED,
                                reason="engine error: " + "".join(traceback.format_exception_only(type(ex), ex)).strip(),
                                tb=traceback.format_exc(), decisions=list(ctx.taken)))
    if not results:
        # vacuity guard: a contract whose inputs admit no feasible path proves nothing
        results.append(dict(name="vacuity", clause="vacuity", verdict=UNDECIDED,
                            reason="no feasible path / no obligation generated: the contract's inputs are contradictory or empty"))
    mod, _, qn = contract.target.partition(".")
    return dict(target=contract.target, obligations=results, paths=npaths,
                calls=sorted(calls), wall=time.time() - t_start)
