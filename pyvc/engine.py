"""pyvc engine: path-splitting symbolic execution of the REAL function ASTs of the repository
(re-read from VERIF_REPO on every run) over the value model of logic.py.

Forking is by *replay*: a path is a list of branch decisions; the function is re-executed from
the start for every path, so every path has its own heap (DESIGN §2.2)."""
import ast
import builtins
import importlib
import inspect
import os
import sys
import types
import z3

from . import logic as L
from .logic import (Rope, as_rope, is_sym, land, lor, lnot, implies, eq, ite, FactSink, sink,
                    to_be, to_le, simplify_native)

REPO = os.environ.get("VERIF_REPO", "/repo")
PKG = "btc_hd_wallet"


# ----------------------------------------------------------------------------- control flow
class PyRaise(Exception):
    def __init__(self, exc_cls, msg=None):
        self.exc_cls = exc_cls
        self.msg = msg

    def __str__(self):
        return f"PyRaise({self.exc_cls.__name__}: {self.msg})"


class Undecided(Exception):
    """construct outside the verified subset / solver unknown: never a violation."""


class _Return(Exception):
    def __init__(self, v):
        self.v = v


class _Break(Exception):
    pass


class _Continue(Exception):
    pass


class PathLimit(Exception):
    pass


class PathCut(Exception):
    """the path ends here by design (inductive step of a loop invariant proved; nothing to continue)"""


# ----------------------------------------------------------------------------- heap values
class Ref:
    __slots__ = ("oid",)

    def __init__(self, oid):
        self.oid = oid

    def __repr__(self):
        return f"Ref({self.oid})"

    def __eq__(self, o):
        return isinstance(o, Ref) and o.oid == self.oid

    def __hash__(self):
        return hash(("Ref", self.oid))


class HObj:
    def __init__(self, cls, fields=None):
        self.cls = cls
        self.fields = dict(fields or {})

    def copy(self):
        return HObj(self.cls, self.fields)


class HList:
    """list; `base` is an opaque symbolic prefix (arbitrary content at entry) or None."""
    def __init__(self, items=None, base=None):
        self.items = list(items or [])
        self.base = base

    def copy(self):
        return HList(self.items, self.base)


class HDict:
    def __init__(self, d=None):
        self.d = dict(d or {})

    def copy(self):
        return HDict(self.d)


class HBytesIO:
    def __init__(self, rope, pos=0):
        self.rope = rope
        self.pos = pos

    def copy(self):
        return HBytesIO(self.rope, self.pos)


class SymList(L.SymVal):
    """list of symbolic length hi-lo whose element at position j-lo (lo <= j < hi) is `elem`, a value
    template over the ONE generic index variable j.  Sound for element-wise obligations: every
    formula proved for the generic j holds for all j (DESIGN §2.2 'map fact')."""
    def __init__(self, lo, hi, j, elem):
        self.lo, self.hi, self.j, self.elem = lo, hi, j, elem

    def length(self):
        d = L.toint(self.hi) - L.toint(self.lo)
        return z3.If(d > 0, d, 0)

    def sym_len(self, ctx=None):
        return self.length()

    def sym_truthy(self, ctx):
        return self.length() > 0

    def sym_type(self):
        return list


class _FieldsView:
    def __init__(self, view):
        self._v = view

    def get(self, name, default=None):
        v = self._v
        saved = v.ctx.post_mode
        v.ctx.post_mode = False
        try:
            return v.ctx.getattr(v.ref, name)
        except PyRaise:
            return default
        finally:
            v.ctx.post_mode = saved

    def __getitem__(self, name):
        r = self.get(name, _MISSING)
        if r is _MISSING:
            raise KeyError(name)
        return r

    def __contains__(self, name):
        return self.get(name, _MISSING) is not _MISSING


_MISSING = object()


class ObjView:
    """what a contract's post-condition sees of a repository object: its class and its PUBLIC attributes
    (read through the class's own properties), never the raw slot layout"""
    def __init__(self, ctx, ref, o):
        self.ctx, self.ref, self.cls = ctx, ref, o.cls
        self.fields = _FieldsView(self)
        self.raw = o


class BoundMeth:
    def __init__(self, func, self_val):
        self.func = func
        self.self_val = self_val


class ModelObj:
    """immutable model of a library object (ecdsa keys, hash objects ...)."""
    def __init__(self, kind, **f):
        self.kind = kind
        self.f = f

    def __repr__(self):
        return f"ModelObj({self.kind})"


_WRITTEN_STATE = None
_MUTATORS = {"update", "setdefault", "pop", "popitem", "clear", "append", "extend", "add", "insert", "remove", "discard", "sort", "reverse",
             "__setitem__", "__delitem__", "cache_clear"}


def written_state_ids():
    """ids of the module-level / class-level mutable containers of the repository package that SOME function of the
    package writes to (subscript store / delete, augmented assignment, a mutating method call).  Such an object is
    program state: what it holds when a function runs is unknown, so no read of it is modelled (a memoisation table
    is the typical case: reading the empty table of analysis time would silently ignore every cache hit)."""
    global _WRITTEN_STATE
    if _WRITTEN_STATE is not None:
        return _WRITTEN_STATE
    names = set()
    pkg_dir = os.path.join(REPO, PKG)
    for fn in sorted(os.listdir(pkg_dir)):
        if not fn.endswith(".py"):
            continue
        try:
            tree = ast.parse(open(os.path.join(pkg_dir, fn)).read())
        except SyntaxError:
            continue
        for f in ast.walk(tree):
            if not isinstance(f, (ast.FunctionDef, ast.Lambda)):
                continue
            for n in ast.walk(f):
                tgt = None
                if isinstance(n, ast.Subscript) and isinstance(n.ctx, (ast.Store, ast.Del)):
                    tgt = n.value
                elif isinstance(n, ast.AugAssign) and isinstance(n.target, (ast.Name, ast.Attribute)):
                    tgt = n.target
                elif isinstance(n, ast.Call) and isinstance(n.func, ast.Attribute) and n.func.attr in _MUTATORS:
                    tgt = n.func.value
                if isinstance(tgt, ast.Name):
                    names.add(tgt.id)
                elif isinstance(tgt, ast.Attribute):
                    names.add(tgt.attr)
    ids = set()
    for modname, mod in list(sys.modules.items()):
        if mod is None or not (modname == PKG or modname.startswith(PKG + ".")):
            continue
        for k, v in list(vars(mod).items()):
            if k in names and isinstance(v, (dict, list, set, bytearray)):
                ids.add(id(v))
            if isinstance(v, type) and (getattr(v, "__module__", "") or "").startswith(PKG):
                for kk, vv in list(vars(v).items()):
                    if kk in names and isinstance(vv, (dict, list, set, bytearray)):
                        ids.add(id(vv))
    _WRITTEN_STATE = ids
    return ids


class ProgramState(L.SymVal):
    """a module / class level container that the package writes to: opaque (every use is UNDECIDED)"""
    def __init__(self, obj):
        self.obj = obj

    def __repr__(self):
        return "ProgramState(" + type(self.obj).__name__ + ")"


def guard_state(v):
    if isinstance(v, (dict, list, set, bytearray)) and id(v) in written_state_ids():
        return ProgramState(v)
    return v


_PUBLIC_NAME = {}


def public_name(f):
    """the dotted name under which contracts and summaries know a repository function.  Normally module + qualname;
    when the function has been MOVED (to a private module that the old one re-exports from, to a base class or a
    mixin) the old public path still reaches the very same function object, and that path is the name used."""
    qn = f.__module__ + "." + f.__qualname__
    if qn in SUMMARIES:
        return qn
    key = (id(f), len(SUMMARIES))
    if key in _PUBLIC_NAME:
        return _PUBLIC_NAME[key]
    name = qn
    hits = []
    for cand in list(SUMMARIES):
        try:
            parts = cand.split(".")
            obj = None
            for i in range(len(parts), 0, -1):
                m = sys.modules.get(".".join(parts[:i]))
                if m is None:
                    continue
                obj = m
                for p in parts[i:]:
                    if isinstance(obj, type):
                        for k in obj.__mro__:
                            if p in vars(k):
                                obj = vars(k)[p]
                                break
                        else:
                            obj = None
                            break
                    else:
                        obj = getattr(obj, p, None)
                    if obj is None:
                        break
                break
            if isinstance(obj, (classmethod, staticmethod)):
                obj = obj.__func__
            if obj is f:
                hits.append(cand)
        except Exception:
            continue
    if len(hits) == 1:
        name = hits[0]          # (several public paths to ONE function, e.g. a method now shared by two classes: no summary
    _PUBLIC_NAME[key] = name    #  is specific enough, the function is inlined)
    return name


class _ChainEnv(dict):
    """local names of a nested function on top of the (live) environment of the enclosing one: reads fall through,
    writes stay local"""
    def __init__(self, local, outer):
        super().__init__(local)
        self.outer = outer

    def __missing__(self, k):
        return self.outer[k]

    def __contains__(self, k):
        return dict.__contains__(self, k) or k in self.outer

    def get(self, k, d=None):
        if dict.__contains__(self, k):
            return dict.__getitem__(self, k)
        return self.outer.get(k, d)


class NoSummary(Exception):
    """raised by a call summary whose contract does not apply to the actual call"""


class SuperProxy(L.SymVal):
    def __init__(self, owner, first):
        self.owner, self.first = owner, first

    def sym_getattr(self, ctx, name):
        first = self.first
        if isinstance(first, Ref):
            cls, inst = ctx.deref(first).cls, first
        elif isinstance(first, type):
            cls, inst = first, None
        else:
            raise Undecided("super() on a value that is not an instance of a repository class")
        mro = list(cls.__mro__)
        if self.owner not in mro:
            raise PyRaise(TypeError, "super(type, obj): obj must be an instance or subtype of type")
        for k in mro[mro.index(self.owner) + 1:]:
            if name in vars(k):
                a = vars(k)[name]
                if isinstance(a, property):
                    return ctx.call_value(a.fget, [first], {})
                if isinstance(a, classmethod):
                    return BoundMeth(a.__func__, cls)
                if isinstance(a, staticmethod):
                    return a.__func__
                if isinstance(a, types.FunctionType):
                    return BoundMeth(a, first) if inst is not None else a
                if k is object:
                    raise Undecided("super() reaching object." + name)
                return a
        raise PyRaise(AttributeError, name)


class GenTuple(tuple):
    """the (eagerly evaluated) elements of a generator expression: a tuple for every consumer that iterates it, and
    an ITERATOR for next(): `pos` is the number of elements already taken"""
    pos = 0


class TrueDiv(L.SymVal):
    """a / b on symbolic ints (b != 0 established at the division); only int(a / b) is supported: truthiness,
    equality and every other use are outside the model (SymVal: the generic rules answer Undecided)"""
    def __init__(self, a, b):
        self.a, self.b = a, b

    def sym_type(self):
        return float


class Opaque:
    """an opaque value (error-message strings, things the proof never looks into)."""
    def __init__(self, what="opaque"):
        self.what = what

    def __repr__(self):
        return f"Opaque({self.what})"


# ----------------------------------------------------------------------------- structured strings
PStr = z3.DeclareSort("PStr")


class Dec(L.SymVal):
    """decimal rendering str(n) of a (symbolic) integer"""
    __slots__ = ("n",)

    def __init__(self, n):
        self.n = n


class OStr(L.SymVal):
    """opaque string term (sort PStr), e.g. Base58Check of a rope.  `inj` = (tag, ints..., rope): the term
    is an injective function (C10/C11 lemmas) of these arguments, so equality is decided argument-wise"""
    __slots__ = ("t", "label", "inj")

    def __init__(self, t, label="", inj=None):
        self.t = t
        self.label = label
        self.inj = inj


class SStr(L.SymVal):
    """string = concatenation of parts: native str | Dec | OStr"""
    __slots__ = ("parts",)

    def __init__(self, parts):
        out = []
        for p in parts:
            if isinstance(p, SStr):
                ps = p.parts
            else:
                ps = [p]
            for q in ps:
                if isinstance(q, Dec) and not is_sym(q.n):
                    q = str(q.n)
                if isinstance(q, str):
                    if q == "":
                        continue
                    if out and isinstance(out[-1], str):
                        out[-1] += q
                        continue
                out.append(q)
        self.parts = out

    def native(self):
        if all(isinstance(p, str) for p in self.parts):
            return "".join(self.parts)
        return None

    def sym_eq(self, other):
        if isinstance(other, str):
            other = SStr([other])
        if not isinstance(other, SStr):
            return L.unlike("str", other)
        return sstr_eq(self, other)

    def __repr__(self):
        r = []
        for p in self.parts:
            if isinstance(p, str):
                r.append(repr(p))
            elif isinstance(p, Dec):
                r.append(f"Dec({p.n})")
            else:
                r.append(f"O<{p.label}:{p.t}>")
        return "SStr(" + "+".join(r) + ")"


def _ostr_eq(a, b):
    if a.inj is not None and b.inj is not None:
        if a.inj[0] != b.inj[0] or len(a.inj) != len(b.inj):
            return a.t == b.t
        conj = []
        for x, y in zip(a.inj[1:], b.inj[1:]):
            if isinstance(x, L.Rope) or isinstance(y, L.Rope):
                if len(x) != len(y):
                    return False
                conj.append(x.eq(y))
            else:
                conj.append(eq(x, y))
        return land(*conj)
    return a.t == b.t


def _sstr_tokens(s):
    import re
    toks = []
    for p in s.parts:
        if isinstance(p, str):
            for m in re.finditer(r"\d+|\D+", p):
                g = m.group(0)
                toks.append(("digits" if g.isdigit() else "lit", g))
        elif isinstance(p, Dec):
            toks.append(("dec", p.n))
        else:
            toks.append(("ostr", p.t, p))
    # a decimal rendering adjacent to a digit run / another rendering has no canonical token structure
    for x, y in zip(toks, toks[1:]):
        if x[0] in ("dec", "digits") and y[0] in ("dec", "digits"):
            raise Undecided(f"ambiguous decimal adjacency in {s}")
        if x[0] == "lit" and x[1].endswith("-") and y[0] in ("dec", "digits"):
            raise Undecided(f"sign adjacency in {s}")
        # an opaque part may begin or end with digits / a sign, and two adjacent opaque parts have no canonical split
        if (x[0] == "ostr" and y[0] in ("dec", "digits", "ostr")) or (y[0] == "ostr" and x[0] in ("dec", "digits")):
            raise Undecided(f"opaque text adjacent to a number or to other opaque text in {s}")
    return toks


def sstr_eq(a, b):
    """equality of structured strings by canonical tokens (maximal digit runs / non-digit chunks /
    decimal renderings / opaque parts).  Different token structures: undecided."""
    ta, tb = _sstr_tokens(a), _sstr_tokens(b)
    if len(ta) != len(tb):
        raise Undecided(f"string equality of different shapes: {a} vs {b}")
    conj = []
    for x, y in zip(ta, tb):
        kx, ky = x[0], y[0]
        if kx == "lit" and ky == "lit":
            if x[1] != y[1]:
                return False
        elif kx == "digits" and ky == "digits":
            if x[1] != y[1]:
                return False
        elif kx == "dec" and ky == "dec":
            conj.append(eq(x[1], y[1]))
        elif {kx, ky} == {"dec", "digits"}:
            n, d = (x[1], y[1]) if kx == "dec" else (y[1], x[1])
            if d != str(int(d)):
                return False
            conj.append(eq(n, int(d)))
        elif kx == "ostr" and ky == "ostr":
            conj.append(_ostr_eq(x[2], y[2]))
        else:
            raise Undecided(f"string equality of different shapes: {a} vs {b}")
    # (str(n) is injective on all integers; a negative n carries its own '-', which the adjacency rules above keep
    #  apart from the neighbouring literal, and a digit run never equals the rendering of a negative number)
    return land(*conj)


_PLIT = {}
_pcat = z3.Function("pcat", PStr, PStr, PStr)
_pdec = z3.Function("pdec", z3.IntSort(), PStr)


def plit(lit):
    if lit not in _PLIT:
        _PLIT[lit] = z3.Const("lit_" + (lit.encode("utf-8").hex() or "empty"), PStr)
    return _PLIT[lit]


def pstr_term(s):
    """a structured string as ONE term of sort PStr (left fold of pcat over its parts)"""
    if isinstance(s, str):
        return plit(s)
    t = None
    for p in s.parts:
        if isinstance(p, str):
            q = plit(p)
        elif isinstance(p, Dec):
            q = _pdec(L.toint(p.n))
        else:
            q = p.t
        t = q if t is None else _pcat(t, q)
    return t if t is not None else plit("")


class DecChar(L.SymVal):
    """a character of a decimal rendering: a digit (or '-' in first position)"""
    def __init__(self, first):
        self.first = first

    def sym_in(self, ctx, container):
        for c in container:
            if not isinstance(c, str) or len(c) != 1:
                raise Undecided("DecChar membership")
            if c.isdigit() or (self.first and c == "-"):
                raise Undecided("DecChar membership in a digit set")
        return False

    def sym_eq(self, other):
        if isinstance(other, str) and len(other) == 1 and not other.isdigit() and not (self.first and other == "-"):
            return False
        raise Undecided("DecChar equality")


def as_sstr(x):
    if isinstance(x, SStr):
        return x
    if isinstance(x, str):
        return SStr([x])
    raise TypeError("not a string")


def mk_str(parts):
    s = SStr(parts)
    n = s.native()
    return n if n is not None else s


# ----------------------------------------------------------------------------- source access
class Source:
    """ASTs of the repository files, re-read on every run; hashes for the evidence."""
    def __init__(self):
        self.trees = {}
        self.hashes = {}
        self.func_cache = {}

    def tree(self, modname):
        if modname not in self.trees:
            mod = importlib.import_module(modname)
            path = mod.__file__
            if not os.path.abspath(path).startswith(os.path.abspath(REPO) + os.sep):
                raise RuntimeError(f"module {modname} loaded from {path}, not from {REPO}")
            src = open(path, "rb").read()
            import hashlib
            self.hashes[os.path.relpath(path, REPO)] = hashlib.sha256(src).hexdigest()
            self.trees[modname] = ast.parse(src)
        return self.trees[modname]

    def funcdef(self, modname, qualname):
        key = (modname, qualname)
        if key in self.func_cache:
            return self.func_cache[key]
        node = self.tree(modname)
        for part in qualname.split("."):
            found = None
            for ch in node.body:
                if isinstance(ch, (ast.FunctionDef, ast.ClassDef)) and ch.name == part:
                    found = ch
            if found is None:
                raise Undecided(f"no source for {modname}.{qualname}")
            node = found
        if not isinstance(node, ast.FunctionDef):
            raise Undecided(f"{modname}.{qualname} is not a function")
        self.func_cache[key] = node
        return node

    def lambdadef(self, f):
        """the AST of a lambda of a repository module, found by its first line (unique lambda with that parameter
        list on that line), wrapped as a function whose body returns the lambda's expression"""
        key = (f.__module__, "<lambda>", f.__code__.co_firstlineno, f.__code__.co_varnames[:f.__code__.co_argcount])
        if key in self.func_cache:
            return self.func_cache[key]
        cands = [n for n in ast.walk(self.tree(f.__module__)) if isinstance(n, ast.Lambda) and n.lineno == f.__code__.co_firstlineno
                 and tuple(a.arg for a in n.args.posonlyargs + n.args.args) == tuple(f.__code__.co_varnames[:f.__code__.co_argcount])]
        if len(cands) != 1:
            raise Undecided(f"no unique source for the lambda at {f.__module__}:{f.__code__.co_firstlineno}")
        lam = cands[0]
        fd = ast.FunctionDef(name="<lambda>", args=lam.args, body=[ast.Return(value=lam.body)], decorator_list=[], lineno=lam.lineno, col_offset=0)
        ast.fix_missing_locations(fd)
        self.func_cache[key] = fd
        return fd

    def func_hash(self, modname, qualname):
        import hashlib
        return hashlib.sha256(ast.dump(self.funcdef(modname, qualname)).encode()).hexdigest()[:16]


SOURCE = Source()


def is_repo_func(f):
    return isinstance(f, types.FunctionType) and (f.__module__ or "").startswith(PKG)


def is_repo_class(c):
    return isinstance(c, type) and (c.__module__ or "").startswith(PKG)


SUMMARIES = {}      # "module.qualname" -> callable(ctx, args(list), kwargs(dict)) -> value | raises PyRaise
MODELS = {}         # id(native callable) -> (callable, model(ctx, args, kwargs))
ATTR_MODELS = {}    # ModelObj.kind -> {attr: fn(ctx, obj) -> value or callable}


def model(native):
    def deco(fn):
        MODELS[id(native)] = (native, fn)
        return fn
    return deco


def contains_sym(v, ctx=None, depth=0):
    if is_sym(v) or isinstance(v, (Ref, SStr, ModelObj, TrueDiv, BoundMeth, Opaque, L.Rope)) \
            or isinstance(v, L.SymVal):
        if isinstance(v, Rope):
            return not v.is_concrete()
        return True
    if depth < 3 and isinstance(v, (tuple, list)):
        return any(contains_sym(x, ctx, depth + 1) for x in v)
    if depth < 3 and isinstance(v, dict):
        return any(contains_sym(x, ctx, depth + 1) for x in v.values())
    return False


def nativize(v):
    """Rope(concrete) -> bytes etc. for native calls"""
    v = simplify_native(v)
    if isinstance(v, tuple):
        return tuple(nativize(x) for x in v)
    if isinstance(v, list):
        return [nativize(x) for x in v]
    return v


# ----------------------------------------------------------------------------- context
class Ctx:
    MAX_CALL_DEPTH = 60

    def __init__(self, prefix=(), timeout_ms=10000, opts=None):
        self.prefix = list(prefix)
        self.taken = []
        self.alts = []              # alternative prefixes to explore
        self.pc = []
        self.sink = FactSink()
        FactSink.current = self.sink
        self.heap = {}
        self.next_oid = 1
        self.timeout_ms = timeout_ms
        self.solver = z3.Solver()
        # feasibility checks are only an optimisation (unknown = explore the path): keep them short
        self.solver.set("timeout", min(timeout_ms, int((opts or {}).get("feasibility_timeout_ms", 2000))))
        self._nfacts = 0
        self.depth = 0
        self.effects = []           # external effects in order (C08/C20)
        self.calls = []             # inlined / modelled calls (evidence)
        self.writes = []            # (oid, field) heap writes
        self.opts = opts or {}
        self.no_summary = set(self.opts.get("no_summary", ()))
        self.branch_count = 0
        self.side_results = []      # obligations generated inside the engine (loop invariants, side conditions)
        self.in_loop_step = False
        self.loop_counter = 0

    def side_check(self, name, formula):
        from .verify import check_valid
        r = check_valid(self, formula, self.timeout_ms, None, None)
        r["name"] = name
        r["clause"] = name
        r["decisions"] = list(self.taken)
        self.side_results.append(r)
        return r["verdict"] == "PROVED"

    # -- heap
    def alloc(self, obj):
        oid = self.next_oid
        self.next_oid += 1
        self.heap[oid] = obj
        return Ref(oid)

    post_mode = False

    def deref(self, r):
        o = self.heap[r.oid]
        if self.post_mode and isinstance(o, HObj):
            return ObjView(self, r, o)
        return o

    def new_obj(self, cls, **fields):
        return self.alloc(HObj(cls, fields))

    def new_list(self, items=(), base=None):
        return self.alloc(HList(items, base))

    def snapshot(self):
        return {oid: o.copy() for oid, o in self.heap.items()}

    # -- path condition
    def assume(self, f):
        f = L._b(f)
        if f is True:
            return
        if f is False:
            f = z3.BoolVal(False)
        self.pc.append(f)
        self.solver.add(f)

    def _sync_facts(self):
        fs = self.sink.facts
        while self._nfacts < len(fs):
            self.solver.add(fs[self._nfacts])
            self._nfacts += 1

    def feasible(self, cond):
        # feasibility has a 2 s soft budget; the watchdog enforces it (an interrupted query counts as feasible).
        # When query after query runs into that limit (a changed function whose path conditions the solver cannot
        # decide), the remaining ones are not attempted: every branch then counts as feasible, which is sound (an
        # infeasible path only adds obligations whose hypotheses are contradictory) and keeps a check within minutes.
        from .verify import WATCHDOG, _Budget
        if _Budget.feas_spent > _Budget.feas_limit:
            return True
        import time as _t
        self._sync_facts()
        self.solver.push()
        self.solver.add(cond)
        t0 = _t.time()
        WATCHDOG.arm(self.solver.ctx, 8.0)
        try:
            r = self.solver.check()
        except z3.Z3Exception:
            r = z3.unknown
        finally:
            WATCHDOG.disarm()
        self.solver.pop()
        if r == z3.unknown:
            _Budget.feas_spent += _t.time() - t0
        return r != z3.unsat

    def branch(self, cond):
        """decide a (possibly symbolic) condition on this path"""
        cond = L._b(simplify_native(cond)) if not isinstance(cond, bool) else cond
        if isinstance(cond, bool):
            return cond
        if not is_sym(cond):
            return bool(cond)
        i = len(self.taken)
        if i < len(self.prefix):
            d = self.prefix[i]
        else:
            self.branch_count += 1
            t = self.feasible(cond)
            f = self.feasible(z3.Not(cond))
            if t and f:
                d = True
                self.alts.append(self.taken + [False])
            elif t:
                d = True
            elif f:
                d = False
            else:
                raise PathLimit("path became infeasible")
        self.taken.append(d)
        self.assume(cond if d else z3.Not(cond))
        return d

    def truthy(self, v):
        """Python truthiness as a (possibly symbolic) condition"""
        v = simplify_native(v)
        if v is None:
            return False
        if isinstance(v, bool):
            return v
        if is_sym(v):
            if z3.is_bool(v):
                return v
            if z3.is_int(v):
                return v != 0
            raise Undecided("truthiness of " + str(v.sort()))
        if isinstance(v, Rope):
            return len(v) > 0
        if isinstance(v, Ref):
            o = self.deref(v)
            if isinstance(o, HList):
                if o.base is not None and not o.items:
                    raise Undecided("truthiness of symbolic list")
                return True if o.items else False
            if isinstance(o, HDict):
                return len(o.d) > 0
            if isinstance(o, HObj):
                # repository classes define neither __bool__ nor __len__
                for k in o.cls.__mro__:
                    if "__bool__" in vars(k) or "__len__" in vars(k):
                        raise Undecided("__bool__/__len__ on heap object")
                return True
            return True
        if isinstance(v, SStr):
            for p in v.parts:
                if isinstance(p, str) and p:
                    return True
                if isinstance(p, Dec):
                    return True
            raise Undecided("truthiness of opaque string")
        if isinstance(v, (ModelObj, BoundMeth)) or type(v).__name__ == "SymPt":
            return True
        if hasattr(v, "sym_truthy"):
            return v.sym_truthy(self)
        if isinstance(v, L.SymVal):
            # a symbolic wrapper without a truthiness rule: never fall back to the truthiness of the wrapper OBJECT
            raise Undecided("truthiness of " + type(v).__name__)
        return bool(v)

    # ------------------------------------------------------------------ attribute access
    def getattr(self, v, name):
        if isinstance(v, Ref):
            o = self.deref(v)
            if isinstance(o, HObj):
                if name == "__class__":
                    return o.cls
                # data descriptors (properties) of the class take precedence over instance storage
                for k in o.cls.__mro__:
                    if name in vars(k):
                        if isinstance(vars(k)[name], property):
                            return self._class_attr(o.cls, name, v)
                        break
                if name in o.fields:
                    return o.fields[name]
                return self._class_attr(o.cls, name, v)
            if isinstance(o, HList):
                return BoundMeth(("list", name), v)
            if isinstance(o, HDict):
                return BoundMeth(("dict", name), v)
            if isinstance(o, HBytesIO):
                return BoundMeth(("bytesio", name), v)
            raise Undecided(f"getattr {name} on {type(o).__name__}")
        if isinstance(v, Rope):
            return BoundMeth(("bytes", name), v)
        if isinstance(v, SStr):
            return BoundMeth(("str", name), v)
        if is_sym(v):
            if z3.is_int(v):
                return BoundMeth(("int", name), v)
            raise Undecided(f"getattr {name} on symbolic {v.sort()}")
        if isinstance(v, ModelObj):
            h = ATTR_MODELS.get(v.kind, {}).get(name)
            if h is None:
                raise Undecided(f"no model for {v.kind}.{name}")
            return h(self, v)
        if hasattr(v, "sym_getattr"):
            return v.sym_getattr(self, name)
        if isinstance(v, type) and is_repo_class(v):
            return self._class_attr(v, name, None)
        if isinstance(v, L.SymVal):
            # a symbolic wrapper without a model for this attribute: never answer with the wrapper's own Python attributes
            raise Undecided(f"attribute {name} of {type(v).__name__}")
        try:
            return guard_state(getattr(v, name))
        except AttributeError:
            raise PyRaise(AttributeError, name)

    def _class_attr(self, cls, name, inst):
        for k in cls.__mro__:
            if name in vars(k):
                a = vars(k)[name]
                if isinstance(a, property):
                    if inst is None:
                        return a
                    return self.call_value(a.fget, [inst], {})
                if isinstance(a, classmethod):
                    return BoundMeth(a.__func__, cls)
                if isinstance(a, staticmethod):
                    return a.__func__
                if isinstance(a, types.FunctionType):
                    if inst is None:
                        return a
                    return BoundMeth(a, inst)
                if isinstance(a, types.MemberDescriptorType):     # __slots__ descriptor, unset
                    if inst is None:
                        return a
                    raise PyRaise(AttributeError, name)
                return guard_state(a)
        if name in ("__name__", "__qualname__", "__module__", "__doc__", "__mro__", "__bases__", "__dict__"):
            src = cls if inst is None else None
            if src is not None:
                return getattr(src, name)          # attributes every class has from `type`
        raise PyRaise(AttributeError, name)

    def setattr(self, v, name, val):
        if isinstance(v, Ref):
            o = self.deref(v)
            if isinstance(o, HObj):
                for k in o.cls.__mro__:
                    if name in vars(k):
                        a = vars(k)[name]
                        if isinstance(a, property):
                            if a.fset is None:
                                raise PyRaise(AttributeError, name)
                            self.call_value(a.fset, [v, val], {})
                            return
                        break
                slots = set()
                has_dict = False
                for k in o.cls.__mro__:
                    if k is object:
                        continue
                    s = vars(k).get("__slots__")
                    if s is None:
                        has_dict = True
                    else:
                        slots.update([s] if isinstance(s, str) else s)
                if not has_dict and name not in slots:
                    raise PyRaise(AttributeError, name)
                o.fields[name] = val
                self.writes.append((v.oid, name))
                return
        raise Undecided(f"setattr on {v}")

    # ------------------------------------------------------------------ calls
    def call_value(self, f, args, kwargs):
        """call any callable value"""
        if isinstance(f, BoundMeth):
            if isinstance(f.func, tuple):
                return builtin_method(self, f.func[0], f.func[1], f.self_val, args, kwargs)
            return self.call_value(f.func, [f.self_val] + list(args), kwargs)
        if isinstance(f, types.MethodType) and is_repo_func(f.__func__):
            return self.call_value(f.__func__, [f.__self__] + list(args), kwargs)
        if callable(getattr(f, "dispatch", None)) and hasattr(f, "registry") and hasattr(f, "__wrapped__"):
            # functools.singledispatch: the implementation registered for the (modelled) Python type of the first argument
            if not args:
                raise PyRaise(TypeError, "singledispatch function requires at least 1 positional argument")
            from . import models as _M
            impl = f.dispatch(_M._cls_of(self, args[0]))
            return self.call_value(impl, args, kwargs)
        if is_repo_func(f):
            return self.call_repo(f, args, kwargs)
        if isinstance(f, type) and is_repo_class(f) and not issubclass(f, BaseException) \
                and not _is_enum(f):
            return self.instantiate(f, args, kwargs)
        if callable(getattr(f, "sym_call", None)):
            return f.sym_call(self, args, kwargs)
        w = getattr(f, "__wrapped__", None)
        if type(f).__name__ == "_lru_cache_wrapper" and w is not None and is_repo_func(w):
            # functools.lru_cache / cache around a repository function: transparent iff the function is a pure function
            # of hashable VALUES (no randomness / IO / program state, arguments compared by value); anything else
            # (a memoised random draw, a method caching on `self`) is outside the model
            qn = w.__module__ + "." + w.__qualname__
            if _has_effects(qn):
                raise Undecided("lru_cache around a function with effects: " + qn)
            for a in list(args) + list(kwargs.values()):
                a = simplify_native(a)
                if isinstance(a, Ref) or (isinstance(a, L.SymVal) and L.family(a) not in ("bytes", "str", "int")):
                    raise Undecided("lru_cache keyed by an object (identity / mutable state)")
            return self.call_repo(w, args, kwargs)
        return self.call_native(f, args, kwargs)

    def call_native(self, f, args, kwargs):
        m = MODELS.get(id(f))
        if m is not None and m[0] is f:
            return m[1](self, list(args), dict(kwargs))
        if isinstance(f, type) and issubclass(f, BaseException):
            return ModelObj("exception", cls=f, args=args)
        if isinstance(f, (types.FunctionType, types.MethodType)) and \
                (getattr(f, "__module__", "") or "").split(".")[0] in ("pyvc", "contracts"):
            return f(*args, **kwargs)       # engine-level callable (closure of a symbolic value)
        anysym = any(contains_sym(a) for a in args) or any(contains_sym(a) for a in kwargs.values())
        if anysym:
            raise Undecided(f"no model for native call {getattr(f, '__qualname__', f)} with symbolic arguments")
        if f in EFFECTFUL:
            raise Undecided(f"effectful native call {f} without model")
        try:
            return f(*[nativize(a) for a in args], **{k: nativize(v) for k, v in kwargs.items()})
        except PyRaise:
            raise
        except Undecided:
            raise
        except (RuntimeError, SystemError, RecursionError, NameError, ReferenceError) as e:
            # interpreter-level failures of a native call usually mean that it depends on context the engine does not
            # reproduce (frames, cells, recursion depth): not an outcome of the program under verification
            if type(e) in (RuntimeError, SystemError, RecursionError, NameError, ReferenceError):
                raise Undecided(f"native call {getattr(f, '__qualname__', f)} failed inside the engine: {type(e).__name__}: {e}")
            raise PyRaise(type(e), str(e))
        except BaseException as e:
            raise PyRaise(type(e), str(e))

    def instantiate(self, cls, args, kwargs):
        if issubclass(cls, tuple) and hasattr(cls, "_fields") and "__new__" in vars(cls) and not is_repo_func(vars(cls)["__new__"]):
            # typing.NamedTuple / collections.namedtuple: an immutable tuple with named fields; the generated __new__
            # only binds arguments, so it is run natively (the items may be symbolic values)
            try:
                return cls(*args, **kwargs)
            except TypeError as e:
                raise PyRaise(TypeError, str(e))
        ref = self.alloc(HObj(cls))
        init = None
        for k in cls.__mro__:
            if "__init__" in vars(k):
                init = vars(k)["__init__"]
                break
        if is_repo_func(init):
            self.call_repo(init, [ref] + list(args), kwargs)
        elif args or kwargs:
            raise PyRaise(TypeError, "object() takes no arguments")
        return ref

    def call_repo(self, f, args, kwargs):
        qn = public_name(f)
        s = SUMMARIES.get(qn)
        if s is not None and qn not in self.no_summary:
            try:
                r = s(self, list(args), dict(kwargs))
                self.calls.append(("summary", qn))
                return r
            except NoSummary:
                pass                # the callee's contract does not cover this call (e.g. another receiver class): inline it
        # all-native arguments and not the function under verification: concrete folding
        if not any(contains_sym(a) for a in args) and not any(contains_sym(a) for a in kwargs.values()) \
                and qn not in self.opts.get("no_fold", ()) and not self.opts.get("no_fold_all") and not _has_effects(qn):
            self.calls.append(("fold", qn))
            try:
                return lift_native(self, f(*[nativize(a) for a in args], **{k: nativize(v) for k, v in kwargs.items()}))
            except BaseException as e:
                if isinstance(e, (PyRaise, Undecided)):
                    raise
                raise PyRaise(type(e), str(e))
        self.calls.append(("inline", qn))
        return self.interp(f, args, kwargs)

    def interp(self, f, args, kwargs):
        if f.__name__ == "<lambda>":
            fd = SOURCE.lambdadef(f)
        else:
            fd = SOURCE.funcdef(f.__module__, f.__qualname__)
        mod = sys.modules[f.__module__]
        env = bind_params(self, f, fd, args, kwargs)
        self.depth += 1
        if self.depth > self.MAX_CALL_DEPTH:
            raise Undecided("call depth")
        fr = Frame(self, mod, env, f)
        try:
            if _is_generator(fd) and self.opts.get("yield_hook") is None:
                raise Undecided("generator function called outside a step contract")
            try:
                fr.exec_block(fd.body)
            except _Return as r:
                return r.v
            return None
        finally:
            self.depth -= 1


def _is_enum(c):
    import enum
    return isinstance(c, type) and issubclass(c, enum.Enum)


def _is_generator(fd):
    for n in ast.walk(fd):
        if isinstance(n, (ast.Yield, ast.YieldFrom)):
            return True
    return False


EFFECTFUL = set()
_EFFECT_FUNCS = set()


EFFECT_NAMES = {"random", "open", "sys", "os", "pathlib", "argparse", "input", "print", "time", "secrets", "uuid"}
_EFFECT_CACHE = {}


def _has_effects(qn, _stack=()):
    """may the function (transitively) touch an external effect source?  Such functions are never folded
    concretely (they are interpreted, so that the effect models see every call)."""
    if qn in _EFFECT_FUNCS:
        return True
    if qn in _EFFECT_CACHE:
        return _EFFECT_CACHE[qn]
    if qn in _stack:
        return False
    parts = qn.split(".")
    res = False
    try:
        for i in range(len(parts), 0, -1):
            modname = ".".join(parts[:i])
            if modname in sys.modules and isinstance(sys.modules[modname], types.ModuleType) and hasattr(sys.modules[modname], "__file__"):
                break
        mod = sys.modules[modname]
        fd = SOURCE.funcdef(modname, ".".join(parts[i:]))
        g = vars(mod)
        for n in ast.walk(fd):
            if isinstance(n, ast.Name):
                if n.id in EFFECT_NAMES:
                    res = True
                    break
                tgt = g.get(n.id)
                if is_repo_func(tgt):
                    if _has_effects(tgt.__module__ + "." + tgt.__qualname__, _stack + (qn,)):
                        res = True
                        break
            elif isinstance(n, ast.Attribute) and isinstance(n.value, ast.Name) and n.value.id in ("cls", "self"):
                # method of the same class
                owner = ".".join(parts[i:-1])
                cand = f"{modname}.{owner}.{n.attr}" if owner else None
                if cand and cand != qn:
                    try:
                        SOURCE.funcdef(modname, f"{owner}.{n.attr}")
                        if _has_effects(cand, _stack + (qn,)):
                            res = True
                            break
                    except Undecided:
                        pass
    except Exception:
        res = True
    _EFFECT_CACHE[qn] = res
    return res


def lift_native(ctx, v):
    """native result of a folded call -> engine value (bytes stay bytes; fine)."""
    return v


def bind_params(ctx, f, fd, args, kwargs):
    a = fd.args
    names = [x.arg for x in a.posonlyargs + a.args]
    env = {}
    args = list(args)
    if len(args) > len(names) and not a.vararg:
        raise PyRaise(TypeError, "too many positional arguments")
    for n, v in zip(names, args):
        env[n] = v
    if a.vararg:
        env[a.vararg.arg] = tuple(args[len(names):])
    kw = dict(kwargs)
    for n in names[len(args):] if len(args) < len(names) else []:
        if n in kw:
            env[n] = kw.pop(n)
    for n in list(kw):
        if n in names:
            if n in env and n in names[:len(args)]:
                raise PyRaise(TypeError, f"multiple values for {n}")
    defaults = f.__defaults__ or ()
    dn = names[len(names) - len(defaults):]
    for n, d in zip(dn, defaults):
        if n not in env:
            env[n] = d
    for ko in a.kwonlyargs:
        if ko.arg in kw:
            env[ko.arg] = kw.pop(ko.arg)
        elif f.__kwdefaults__ and ko.arg in f.__kwdefaults__:
            env[ko.arg] = f.__kwdefaults__[ko.arg]
    if a.kwarg:
        env[a.kwarg.arg] = kw
        kw = {}
    if kw:
        raise PyRaise(TypeError, f"unexpected keyword {list(kw)}")
    for n in names:
        if n not in env:
            raise PyRaise(TypeError, f"missing argument {n}")
    return env


# ----------------------------------------------------------------------------- frames
class Frame:
    def __init__(self, ctx, mod, env, func=None):
        self.ctx = ctx
        self.mod = mod
        self.env = env
        self.func = func

    # -- statements
    def exec_block(self, stmts):
        for s in stmts:
            self.exec(s)

    def exec(self, s):
        m = getattr(self, "s_" + type(s).__name__, None)
        if m is None:
            raise Undecided(f"statement {type(s).__name__} outside the subset (line {s.lineno})")
        return m(s)

    def s_Expr(self, s):
        if isinstance(s.value, ast.Constant):
            return
        self.ev(s.value)

    def s_Pass(self, s):
        pass

    def s_Return(self, s):
        raise _Return(self.ev(s.value) if s.value is not None else None)

    def s_Break(self, s):
        raise _Break()

    def s_Continue(self, s):
        raise _Continue()

    def s_Assign(self, s):
        v = self.ev(s.value)
        for t in s.targets:
            self.assign(t, v)

    def s_AnnAssign(self, s):
        if s.value is not None:
            self.assign(s.target, self.ev(s.value))

    def s_AugAssign(self, s):
        if isinstance(s.target, ast.Name):
            cur = self.lookup(s.target.id)
        elif isinstance(s.target, ast.Attribute):
            cur = self.ctx.getattr(self.ev(s.target.value), s.target.attr)
        else:
            raise Undecided("augmented assignment target")
        # list += iterable mutates in place
        if isinstance(cur, Ref) and isinstance(self.ctx.deref(cur), HList) and isinstance(s.op, ast.Add):
            rhs = self.ev(s.value)
            builtin_method(self.ctx, "list", "extend", cur, [rhs], {})
            return
        v = binop(self.ctx, s.op, cur, self.ev(s.value))
        self.assign(s.target, v)

    def assign(self, t, v):
        if isinstance(t, ast.Name):
            self.env[t.id] = v
        elif isinstance(t, ast.Attribute):
            self.ctx.setattr(self.ev(t.value), t.attr, v)
        elif isinstance(t, (ast.Tuple, ast.List)):
            items = iterate(self.ctx, v)
            stars = [i for i, e in enumerate(t.elts) if isinstance(e, ast.Starred)]
            if len(stars) > 1:
                raise Undecided("several starred targets")
            if stars:
                # a, *rest, z = items : rest is a new list of whatever is left (ValueError if too few values)
                k = stars[0]
                after = len(t.elts) - k - 1
                if len(items) < len(t.elts) - 1:
                    raise PyRaise(ValueError, "unpack")
                for tt, vv in zip(t.elts[:k], items[:k]):
                    self.assign(tt, vv)
                self.assign(t.elts[k].value, self.ctx.new_list(list(items[k:len(items) - after])))
                for tt, vv in zip(t.elts[k + 1:], items[len(items) - after:] if after else []):
                    self.assign(tt, vv)
                return
            if len(items) != len(t.elts):
                raise PyRaise(ValueError, "unpack")
            for tt, vv in zip(t.elts, items):
                self.assign(tt, vv)
        elif isinstance(t, ast.Subscript):
            base = self.ev(t.value)
            idx = self.ev(t.slice)
            if isinstance(base, Ref):
                o = self.ctx.deref(base)
                if isinstance(o, HDict) and not contains_sym(idx):
                    o.d[idx] = v
                    self.ctx.writes.append((base.oid, "[]"))
                    return
                if isinstance(o, HList) and isinstance(idx, int) and o.base is None:
                    o.items[idx] = v
                    self.ctx.writes.append((base.oid, "[]"))
                    return
            if isinstance(base, (dict, list)):
                raise Undecided("write to module / class-level state: the frame (modifies clause) cannot be established")
            raise Undecided("subscript store")
        else:
            raise Undecided("assignment target")

    def s_If(self, s):
        c = self.ctx.truthy(self.ev(s.test))
        if self.ctx.branch(c):
            self.exec_block(s.body)
        else:
            self.exec_block(s.orelse)

    def s_Assert(self, s):
        c = self.ctx.truthy(self.ev(s.test))
        if not self.ctx.branch(c):
            raise PyRaise(AssertionError)

    def s_Raise(self, s):
        if s.exc is None:
            cur = getattr(self, "_handling", None)
            if cur:
                raise PyRaise(cur[-1].exc_cls)          # bare `raise` inside an except block: the exception being handled
            raise Undecided("bare raise outside an except block")
        if isinstance(s.exc, ast.Call):
            # the message text is dropped by the extraction (assumed not to raise)
            cls = self.ev(s.exc.func)
            if isinstance(cls, type) and issubclass(cls, BaseException):
                raise PyRaise(cls)
        e = self.ev(s.exc)
        if isinstance(e, type) and issubclass(e, BaseException):
            raise PyRaise(e)
        if isinstance(e, ModelObj) and e.kind == "exception":
            raise PyRaise(e.f["cls"])
        if isinstance(e, BaseException):
            raise PyRaise(type(e))
        raise Undecided("raise of non-exception")

    def s_Try(self, s):
        if s.finalbody:
            raise Undecided("try/finally")
        try:
            self.exec_block(s.body)
        except PyRaise as e:
            for h in s.handlers:
                if h.type is None:
                    match = True
                else:
                    ht = self.ev(h.type)
                    hts = ht if isinstance(ht, tuple) else (ht,)
                    match = any(isinstance(x, type) and issubclass(e.exc_cls, x) for x in hts)
                if match:
                    if h.name:
                        self.env[h.name] = ModelObj("exception", cls=e.exc_cls, args=())
                    self._handling = getattr(self, "_handling", []) + [e]
                    try:
                        self.exec_block(h.body)
                    finally:
                        self._handling = self._handling[:-1]
                    return
            raise
        else:
            self.exec_block(s.orelse)

    def s_For(self, s):
        it = self.ev(s.iter)
        spec = self.ctx.opts.get("loops", {}).get(id(s))
        if spec is not None:
            return self._invariant_loop(s, spec, True, it)
        hook = self.ctx.opts.get("loop_hook")
        if hook is not None:
            r = hook(self, s, it)
            if r is not None:
                return
        app = self._append_loop(s, it)
        if app:
            return
        items = iterate(self.ctx, it)
        broke = False
        for x in items:
            self.assign(s.target, x)
            try:
                self.exec_block(s.body)
            except _Break:
                broke = True
                break
            except _Continue:
                continue
        if not broke:
            self.exec_block(s.orelse)

    def _append_loop(self, s, it):
        """`out = []` ... `for x in <symbolic-length iterable>: out.append(<expr>)` is the list comprehension
        `[<expr> for x in ...]` when `out` is a fresh empty list that nothing else refers to: treated with the same
        generic-element rule (one generic index, element-wise obligations)."""
        if not (isinstance(it, SymList) or (type(it).__name__ == "SymRange" and (is_sym(it.start) or is_sym(it.stop)))):
            return False
        if s.orelse or len(s.body) != 1 or not isinstance(s.body[0], ast.Expr):
            return False
        call = s.body[0].value
        if not (isinstance(call, ast.Call) and isinstance(call.func, ast.Attribute) and call.func.attr == "append"
                and isinstance(call.func.value, ast.Name) and len(call.args) == 1 and not call.keywords):
            return False
        name = call.func.value.id
        ref = self.env.get(name)
        if not isinstance(ref, Ref):
            return False
        o = self.ctx.heap.get(ref.oid)
        if not isinstance(o, HList) or o.items or o.base is not None or ref.oid in getattr(self.ctx, "entry_snapshot", {}):
            return False
        # nothing else may refer to the list (no alias can observe the appends)
        for k, v in self.env.items():
            if k != name and isinstance(v, Ref) and v.oid == ref.oid:
                return False
        for oid, ob in self.ctx.heap.items():
            vals = list(ob.fields.values()) if isinstance(ob, HObj) else (list(ob.items) if isinstance(ob, HList) else (list(ob.d.values()) if isinstance(ob, HDict) else []))
            if any(isinstance(v, Ref) and v.oid == ref.oid for v in vals):
                return False
        r = self._comp_over(it, s.target, [], lambda: self.ev(call.args[0]))
        self.env[name] = self.ctx.new_list(r) if isinstance(r, list) else r
        return True

    def _invariant_loop(self, s, spec, is_for, it=None):
        """classic inductive treatment of a loop with a sidecar invariant:
        entry obligation; then EITHER (step) havoc, assume inv & cond, run the body once, prove inv again, cut
        OR (exit) havoc, assume inv & not cond, continue after the loop."""
        ctx = self.ctx
        ctx.loop_counter += 1
        k = spec.name
        ghost = spec.at_entry(ctx, self, it)
        ctx.side_check(f"{k}.inv.entry", spec.invariant(ctx, self, ghost))
        step = ctx.branch(z3.Bool(f"loop_step!{k}!{ctx.loop_counter}"))
        spec.havoc(ctx, self, ghost)
        ctx.assume(spec.invariant(ctx, self, ghost))
        if is_for:
            cond = spec.for_cond(ctx, self, ghost)
        else:
            cond = ctx.truthy(self.ev(s.test))
        if step:
            if not ctx.branch(cond):
                raise PathCut()
            if is_for:
                self.assign(s.target, spec.for_element(ctx, self, ghost))
            dec0 = spec.variant(ctx, self, ghost) if callable(getattr(spec, "variant", None)) else None
            ctx.in_loop_step = True
            try:
                self.exec_block(s.body)
            except _Break:
                # a break leaves the loop with the current state: the exit obligations must hold there
                ctx.in_loop_step = False
                if hasattr(spec, "after_break"):
                    spec.after_break(ctx, self, ghost)
                    return
                raise Undecided("break inside a loop with an invariant (no after_break clause)")
            except _Continue:
                pass
            ctx.in_loop_step = False
            if is_for:
                spec.for_advance(ctx, self, ghost)
            if hasattr(spec, "after_body"):
                spec.after_body(ctx, self, ghost)
            ctx.side_check(f"{k}.inv.preserved", spec.invariant(ctx, self, ghost))
            if dec0 is not None:
                dec1 = spec.variant(ctx, self, ghost)
                ctx.side_check(f"{k}.decreases", land(dec1 < dec0, dec0 >= 0))
            raise PathCut()
        else:
            if ctx.branch(cond):
                raise PathCut()
            if hasattr(spec, "at_exit"):
                spec.at_exit(ctx, self, ghost)
            self.exec_block(s.orelse)
            return

    def s_While(self, s):
        spec = self.ctx.opts.get("loops", {}).get(id(s))
        if spec is not None:
            return self._invariant_loop(s, spec, False)
        hook = self.ctx.opts.get("loop_hook")
        if hook is not None:
            r = hook(self, s, None)
            if r is not None:
                return
        n = 0
        nsym = 0
        limit = self.ctx.opts.get("while_unroll", 2000)
        sym_limit = self.ctx.opts.get("while_unroll_symbolic", 24)
        while True:
            c = self.ctx.truthy(self.ev(s.test))
            if is_sym(c):
                # a condition that stays symbolic forks at every iteration: without a sidecar invariant such a loop is
                # unrolled a few times only (enough for the short loops of the package), then the path is undecided
                nsym += 1
                if nsym > sym_limit:
                    raise Undecided("loop with a symbolic condition and no sidecar invariant (unrolled %d times)" % sym_limit)
            if not self.ctx.branch(c):
                self.exec_block(s.orelse)
                return
            n += 1
            if n > limit:
                raise Undecided("while loop without invariant exceeded the unrolling limit")
            try:
                self.exec_block(s.body)
            except _Break:
                return
            except _Continue:
                continue

    def s_With(self, s):
        h = self.ctx.opts.get("with_hook")
        if h is None:
            raise Undecided("with statement")
        return h(self, s)

    def s_Global(self, s):
        raise Undecided("global statement")

    def s_Match(self, s):
        subj = self.ev(s.subject)

        def matches(pat):
            if isinstance(pat, ast.MatchValue):
                return compare(self.ctx, ast.Eq(), subj, self.ev(pat.value))
            if isinstance(pat, ast.MatchSingleton):
                return _is(subj, pat.value)
            if isinstance(pat, ast.MatchOr):
                return lor(*[matches(p) for p in pat.patterns])
            if isinstance(pat, ast.MatchAs) and pat.pattern is None:
                return True
            raise Undecided("match pattern " + type(pat).__name__)
        for case in s.cases:
            cond = matches(case.pattern)
            if isinstance(case.pattern, ast.MatchAs) and case.pattern.pattern is None and case.pattern.name:
                self.env[case.pattern.name] = subj
            if case.guard is not None:
                if self.ctx.branch(self.ctx.truthy(cond)) and self.ctx.branch(self.ctx.truthy(self.ev(case.guard))):
                    return self.exec_block(case.body)
                continue
            if self.ctx.branch(self.ctx.truthy(cond)):
                return self.exec_block(case.body)

    def s_FunctionDef(self, s):
        """a nested function is a closure over the current environment (late binding of free variables, like
        Python); decorators, generators, nonlocal/global rebinding and */** parameters are outside the subset"""
        a = s.args
        if s.decorator_list or a.vararg or a.kwarg or a.kwonlyargs or a.posonlyargs or _is_generator(s):
            raise Undecided("nested function with decorators / generators / star parameters")
        for n in ast.walk(s):
            if isinstance(n, (ast.Nonlocal, ast.Global)):
                raise Undecided("nested function rebinding outer names")
        names = [x.arg for x in a.args]
        defaults = [self.ev(d) for d in a.defaults]
        outer = self

        def closure(*args, **kwargs):
            if len(args) > len(names):
                raise PyRaise(TypeError, "too many positional arguments")
            bound = dict(zip(names, args))
            for k, v in kwargs.items():
                if k not in names or k in bound:
                    raise PyRaise(TypeError, "unexpected argument")
                bound[k] = v
            for n, d in zip(names[len(names) - len(defaults):], defaults):
                bound.setdefault(n, d)
            if len(bound) != len(names):
                raise PyRaise(TypeError, "missing argument")
            env = _ChainEnv(bound, outer.env)
            fr = Frame(outer.ctx, outer.mod, env, outer.func)
            try:
                fr.exec_block(s.body)
            except _Return as r:
                return r.v
            return None
        closure.__module__ = "pyvc.engine"
        closure.__qualname__ = s.name
        self.env[s.name] = closure

    # -- expressions
    def lookup(self, name):
        if name in self.env:
            return self.env[name]
        g = vars(self.mod)
        if name in g:
            return guard_state(g[name])
        if hasattr(builtins, name):
            return getattr(builtins, name)
        raise PyRaise(NameError, name)

    def ev(self, e):
        m = getattr(self, "e_" + type(e).__name__, None)
        if m is None:
            raise Undecided(f"expression {type(e).__name__} outside the subset")
        return m(e)

    def e_Constant(self, e):
        return e.value

    def e_Name(self, e):
        return self.lookup(e.id)

    def e_Attribute(self, e):
        return self.ctx.getattr(self.ev(e.value), e.attr)

    def e_Tuple(self, e):
        return tuple(self._elts(e.elts))

    def _elts(self, elts):
        out = []
        for x in elts:
            if isinstance(x, ast.Starred):
                out.extend(iterate(self.ctx, self.ev(x.value)))
            else:
                out.append(self.ev(x))
        return out

    def e_List(self, e):
        return self.ctx.new_list(self._elts(e.elts))

    def e_Dict(self, e):
        d = {}
        for k, v in zip(e.keys, e.values):
            if k is None:
                raise Undecided("dict unpacking")
            kk = self.ev(k)
            if contains_sym(kk):
                raise Undecided("symbolic dict key")
            d[kk] = self.ev(v)
        return self.ctx.alloc(HDict(d))

    def e_JoinedStr(self, e):
        parts = []
        for v in e.values:
            if isinstance(v, ast.Constant):
                parts.append(v.value)
            else:
                if v.format_spec is not None or v.conversion not in (-1, 115):
                    raise Undecided("f-string format spec")
                parts.append(to_str(self.ctx, self.ev(v.value)))
        if any(isinstance(x, L.SymVal) and not isinstance(x, (SStr, Dec, OStr)) for x in parts):
            # a text-like symbolic value without a structured-string form (e.g. the opaque result of a summarised
            # callee): the f-string is the concatenation of its pieces
            parts = [x for x in parts if not (isinstance(x, str) and x == "")]
            r = parts[0]
            for x in parts[1:]:
                r = binop(self.ctx, ast.Add(), r, x)
            return r
        return mk_str(parts)

    def e_IfExp(self, e):
        c = self.ctx.truthy(self.ev(e.test))
        if is_sym(c) and self.ctx.opts.get("merge_ifexp") and _pure_expr(e.body) and _pure_expr(e.orelse):
            # value-level merge (no path split) for arms without calls: used in bit-level code
            a, b = self.ev(e.body), self.ev(e.orelse)
            from .lowbits import LB, bv, _bits_of, is_exact
            if isinstance(a, (LB, int)) and isinstance(b, (LB, int)) and not isinstance(a, bool) and not isinstance(b, bool):
                return LB(z3.If(c, bv(a), bv(b)), is_exact(a) and is_exact(b), max(_bits_of(a), _bits_of(b)))
        return self.ev(e.body) if self.ctx.branch(c) else self.ev(e.orelse)

    def e_BoolOp(self, e):
        isand = isinstance(e.op, ast.And)
        v = None
        for i, x in enumerate(e.values):
            v = self.ev(x)
            if i == len(e.values) - 1:
                return v
            t = self.ctx.truthy(v)
            # value-preserving semantics: a and b -> a if not a else b
            if is_sym(t) and self.ctx.opts.get("merge_bool", True) and _is_boolish(v):
                # keep as a formula when all operands are boolean conditions (no forking)
                rest = []
                ok = True
                vals = [v]
                for y in e.values[i + 1:]:
                    if not _pure_expr(y):
                        ok = False
                        break
                if ok:
                    save = (list(self.ctx.taken), len(self.ctx.pc))
                    try:
                        for y in e.values[i + 1:]:
                            w = self.ev(y)
                            if not _is_boolish(w):
                                ok = False
                                break
                            vals.append(w)
                    except (PyRaise, Undecided):
                        ok = False
                    if ok and save[0] == self.ctx.taken:
                        ts = [self.ctx.truthy(w) for w in vals]
                        return land(*ts) if isand else lor(*ts)
                    if save[0] != self.ctx.taken:
                        raise Undecided("branching inside a merged boolean expression")
            b = self.ctx.branch(t)
            if isand and not b:
                return v
            if not isand and b:
                return v
        return v

    def e_UnaryOp(self, e):
        v = self.ev(e.operand)
        if isinstance(e.op, ast.Not):
            return lnot(self.ctx.truthy(v))
        if isinstance(e.op, ast.USub):
            return -v
        if isinstance(e.op, ast.UAdd):
            return +v
        if isinstance(e.op, ast.Invert):
            if hasattr(v, "sym_invert"):
                return v.sym_invert()
            if is_sym(v):
                return -v - 1
            return ~v
        raise Undecided("unary op")

    def e_BinOp(self, e):
        return binop(self.ctx, e.op, self.ev(e.left), self.ev(e.right))

    def e_Compare(self, e):
        left = self.ev(e.left)
        res = []
        for i, (op, c) in enumerate(zip(e.ops, e.comparators)):
            try:
                right = self.ev(c)
            except PyRaise:
                # a < b < c evaluates c only if a < b holds: the exception happens only on that branch
                if i == 0:
                    raise
                prev = land(*res) if len(res) > 1 else res[0]
                if self.ctx.branch(self.ctx.truthy(prev)):
                    raise
                return False
            res.append(compare(self.ctx, op, left, right))
            left = right
        return land(*res) if len(res) > 1 else res[0]

    def e_Subscript(self, e):
        base = self.ev(e.value)
        if isinstance(e.slice, ast.Slice):
            lo = self.ev(e.slice.lower) if e.slice.lower is not None else None
            hi = self.ev(e.slice.upper) if e.slice.upper is not None else None
            if e.slice.step is not None:
                raise Undecided("slice step")
            return subscript(self.ctx, base, slice(lo, hi))
        return subscript(self.ctx, base, self.ev(e.slice))

    def _super(self):
        """zero-argument super() inside a method of a repository class: attribute lookup continues in the MRO of the
        RUNTIME class of the first argument after the class that defines the running method"""
        f = self.func
        if f is None or "." not in getattr(f, "__qualname__", ""):
            raise Undecided("super() outside a method")
        owner = sys.modules[f.__module__]
        for part in f.__qualname__.split(".")[:-1]:
            owner = getattr(owner, part, None)
        if not isinstance(owner, type):
            raise Undecided("super(): defining class not found")
        fd = SOURCE.lambdadef(f) if f.__name__ == "<lambda>" else SOURCE.funcdef(f.__module__, f.__qualname__)
        params = [a.arg for a in fd.args.posonlyargs + fd.args.args]
        if not params or params[0] not in self.env:
            raise Undecided("super() without a first argument")
        return SuperProxy(owner, self.env[params[0]])

    def e_Call(self, e):
        if isinstance(e.func, ast.Name) and e.func.id == "super" and not e.args and not e.keywords and "super" not in self.env:
            return self._super()
        f = self.ev(e.func)
        args = self._elts(e.args)
        kwargs = {}
        for k in e.keywords:
            if k.arg is None:
                d = self.ev(k.value)
                dd = self.ctx.deref(d).d if isinstance(d, Ref) and isinstance(self.ctx.deref(d), HDict) else (d if isinstance(d, dict) else None)
                if dd is None or not all(isinstance(x, str) for x in dd):
                    raise Undecided("**kwargs call with a mapping of unknown shape")
                for kk, vv in dd.items():
                    if kk in kwargs:
                        raise PyRaise(TypeError, "multiple values for keyword argument")
                    kwargs[kk] = vv
                continue
            kwargs[k.arg] = self.ev(k.value)
        return self.ctx.call_value(f, args, kwargs)

    def e_NamedExpr(self, e):
        v = self.ev(e.value)
        self.assign(e.target, v)
        return v

    def e_Lambda(self, e):
        """a closure over the current environment (late binding, like Python); positional parameters with
        optional defaults only"""
        a = e.args
        if a.vararg or a.kwarg or a.kwonlyargs or a.posonlyargs:
            raise Undecided("lambda with */** parameters")
        names = [x.arg for x in a.args]
        defaults = [self.ev(d) for d in a.defaults]
        outer = self

        def closure(*args, **kwargs):
            if len(args) > len(names):
                raise PyRaise(TypeError, "lambda takes fewer arguments")
            env = dict(outer.env)
            bound = dict(zip(names, args))
            for k, v in kwargs.items():
                if k not in names or k in bound:
                    raise PyRaise(TypeError, "lambda got an unexpected argument")
                bound[k] = v
            for n, d in zip(names[len(names) - len(defaults):], defaults):
                bound.setdefault(n, d)
            if len(bound) != len(names):
                raise PyRaise(TypeError, "lambda missing argument")
            env.update(bound)
            return Frame(outer.ctx, outer.mod, env, outer.func).ev(e.body)
        closure.__module__ = "pyvc.engine"
        closure.__qualname__ = "<lambda>"
        return closure

    def _comp(self, e, elt_fn):
        if len(e.generators) != 1:
            raise Undecided("nested comprehension")
        g = e.generators[0]
        it = self.ev(g.iter)
        ch = self.ctx.opts.get("comp_hook")
        if ch is not None:
            r = ch(self, e, it)
            if r is not None:
                return r
        return self._comp_over(it, g.target, g.ifs, elt_fn)

    def _comp_over(self, it, target, ifs, elt_fn):
        g = ast.comprehension(target=target, iter=None, ifs=ifs, is_async=0)
        gen = _generic_iter(self.ctx, it)
        if gen == "empty":
            return []
        if gen is not None:
            if g.ifs:
                raise Undecided("filtered comprehension over a symbolic-length iterable")
            lo, hi, j, x = gen
            saved = dict(self.env)
            self.assign(g.target, x)
            snap_lists = {oid: (len(o.items), o.base) for oid, o in self.ctx.heap.items() if isinstance(o, HList)}
            v = elt_fn()
            # heap effects of the generic iteration: a list that grew has grown an unknown number of times
            for oid, (n0, b0) in snap_lists.items():
                o = self.ctx.heap[oid]
                if len(o.items) != n0 or o.base != b0:
                    o.items = []
                    o.base = f"havoc!{oid}!{self.ctx.sink.counter}"
                    self.ctx.sink.counter += 1
            for k in list(self.env):
                if k not in saved:
                    del self.env[k]
            self.env.update(saved)
            return SymList(lo, hi, j, v)
        out = []
        saved = dict(self.env)
        for x in iterate(self.ctx, it):
            self.assign(g.target, x)
            ok = True
            for cond in g.ifs:
                if not self.ctx.branch(self.ctx.truthy(self.ev(cond))):
                    ok = False
                    break
            if ok:
                out.append(elt_fn())
        # comprehension variables do not leak
        for k in list(self.env):
            if k not in saved:
                del self.env[k]
        self.env.update(saved)
        return out

    def e_ListComp(self, e):
        r = self._comp(e, lambda: self.ev(e.elt))
        if isinstance(r, list):
            return self.ctx.new_list(r)
        return r

    def e_GeneratorExp(self, e):
        # a generator is consumed lazily (any/all/next stop early): an element after the first that raises would not
        # necessarily be evaluated by Python.  Elements are evaluated eagerly here; such a raise is outside the model.
        seen = [0]

        def elt():
            seen[0] += 1
            try:
                return self.ev(e.elt)
            except PyRaise as ex:
                if seen[0] > 1:
                    raise Undecided("element of a lazily consumed generator raised " + getattr(ex.exc_cls, "__name__", "?"))
                raise
        r = self._comp(e, elt)
        if isinstance(r, list):
            return GenTuple(r)
        return r

    def e_DictComp(self, e):
        r = self._comp(e, lambda: (self.ev(e.key), self.ev(e.value)))
        if not isinstance(r, list):
            return r
        d = {}
        for k, v in r:
            if contains_sym(k):
                raise Undecided("symbolic dict key")
            d[k] = v
        return self.ctx.alloc(HDict(d))

    def e_Yield(self, e):
        h = self.ctx.opts.get("yield_hook")
        if h is None:
            raise Undecided("yield outside a generator step contract")
        return h(self, self.ev(e.value) if e.value is not None else None)


def _generic_iter(ctx, it):
    """(lo, hi, generic index j, generic element) for iterables of symbolic length"""
    if isinstance(it, SymList):
        if not ctx.branch(L.toint(it.lo) < L.toint(it.hi)):
            return "empty"
        ctx.assume(z3.And(L.toint(it.lo) <= it.j, it.j < L.toint(it.hi)))
        return it.lo, it.hi, it.j, it.elem
    if type(it).__name__ == "SymRange" and (is_sym(it.start) or is_sym(it.stop)):
        if not ctx.branch(L.toint(it.start) < L.toint(it.stop)):
            return "empty"
        j = ctx.sink.fresh("j")
        ctx.assume(z3.And(L.toint(it.start) <= j, j < L.toint(it.stop)))
        return it.start, it.stop, j, j
    return None


def _bits_of_const(x, c, term):
    """sum over the set bits k of the non-negative constant c of term(bit_k(x), k), bit_k(x) = floor(x / 2^k) mod 2"""
    total = 0
    k = 0
    while c >> k:
        if (c >> k) & 1:
            bit = L.fmod(L.fdiv(x, 2 ** k), 2)
            total = total + term(bit, k)
        k += 1
    return total


def _is_boolish(v):
    return isinstance(v, bool) or (is_sym(v) and z3.is_bool(v))


_PROPERTY_NAMES = None


def _property_names():
    """names of properties defined by repository classes (attribute loads of these run code and may branch)"""
    global _PROPERTY_NAMES
    if _PROPERTY_NAMES is None:
        names = set()
        for modname, mod in list(sys.modules.items()):
            if modname.startswith(PKG) and mod is not None:
                for v in vars(mod).values():
                    if isinstance(v, type) and (v.__module__ or "").startswith(PKG):
                        for k, a in vars(v).items():
                            if isinstance(a, property):
                                names.add(k)
        _PROPERTY_NAMES = names
    return _PROPERTY_NAMES


def _pure_expr(e):
    """expression without calls (safe to evaluate eagerly in a merged boolean)"""
    props = _property_names()
    for n in ast.walk(e):
        if isinstance(n, ast.Attribute) and n.attr in props:
            return False
        if isinstance(n, ast.Call):
            # total, side-effect free builtins on one argument are as good as operators
            if isinstance(n.func, ast.Name) and n.func.id in ("ord", "len") and len(n.args) == 1 and not n.keywords:
                continue
            return False
        if isinstance(n, (ast.Yield, ast.Await, ast.NamedExpr)):
            return False
    return True


# ----------------------------------------------------------------------------- operators
def iterate(ctx, v):
    """concrete-shape iteration -> list of values"""
    v = simplify_native(v)
    if isinstance(v, Ref):
        o = ctx.deref(v)
        if isinstance(o, HList):
            if o.base is not None:
                raise Undecided("iteration over a symbolic list")
            return list(o.items)
        if isinstance(o, HDict):
            return list(o.d.keys())
        raise Undecided("iteration over heap object")
    if isinstance(v, Rope):
        return v.bytes_list()
    if isinstance(v, SStr):
        out = []
        for p in v.parts:
            if isinstance(p, str):
                out.extend(p)
            else:
                raise Undecided("iteration over a symbolic string")
        return out
    if isinstance(v, (list, tuple, str, bytes, range, dict)) or hasattr(v, "__iter__"):
        if hasattr(v, "sym_iter"):
            return v.sym_iter(ctx)
        if isinstance(v, range) and len(v) > 100000:
            raise Undecided("huge concrete range")
        return list(v)
    if hasattr(v, "sym_iter"):
        return v.sym_iter(ctx)
    if isinstance(v, SymList):
        raise Undecided("statement-level iteration over a symbolic-length list")
    raise Undecided(f"iteration over {type(v).__name__}")


def _ints(a, b):
    return (is_sym(a) or isinstance(a, int)) and (is_sym(b) or isinstance(b, int)) and \
        not (is_sym(a) and not z3.is_int(a)) and not (is_sym(b) and not z3.is_int(b))


def _pow2_exp(n):
    return n > 0 and (n & (n - 1)) == 0


def binop(ctx, op, a, b):
    a, b = simplify_native(a), simplify_native(b)
    if hasattr(a, "sym_binop"):
        return a.sym_binop(ctx, op, b, False)
    if hasattr(b, "sym_binop"):
        return b.sym_binop(ctx, op, a, True)
    if isinstance(a, bool) and is_sym(b):
        a = int(a)
    if isinstance(b, bool) and is_sym(a):
        b = int(b)
    if _ints(a, b) and (is_sym(a) or is_sym(b)):
        a_, b_ = a, b
        if is_sym(a_) and z3.is_bool(a_):
            a_ = z3.If(a_, 1, 0)
        if is_sym(b_) and z3.is_bool(b_):
            b_ = z3.If(b_, 1, 0)
        if isinstance(op, ast.Add):
            return a_ + b_
        if isinstance(op, ast.Sub):
            return a_ - b_
        if isinstance(op, ast.Mult):
            return a_ * b_
        if isinstance(op, ast.FloorDiv):
            if is_sym(b_):
                raise Undecided("floor division by symbolic")
            if b_ == 0:
                raise PyRaise(ZeroDivisionError)
            if b_ > 0:
                return L.fdiv(a_, b_)
            raise Undecided("floor division by negative")
        if isinstance(op, ast.Mod):
            if is_sym(b_):
                raise Undecided("mod by symbolic")
            if b_ == 0:
                raise PyRaise(ZeroDivisionError)
            if b_ > 0:
                return L.fmod(a_, b_)
            raise Undecided("mod by negative")
        if isinstance(op, ast.Div):
            if ctx.branch(L.eq(b_, 0)):
                raise PyRaise(ZeroDivisionError)
            return TrueDiv(a_, b_)
        if isinstance(op, ast.Pow):
            if not is_sym(b_) and b_ >= 0 and not is_sym(a_):
                return a_ ** b_
            if not is_sym(b_) and 0 <= b_ <= 4:
                r = 1
                for _ in range(b_):
                    r = r * a_
                return r
            raise Undecided("symbolic power")
        if isinstance(op, ast.RShift):
            if is_sym(b_):
                raise Undecided("shift by symbolic")
            if b_ < 0:
                raise PyRaise(ValueError)
            return L.fdiv(a_, 2 ** b_)
        if isinstance(op, ast.LShift):
            if is_sym(b_):
                raise Undecided("shift by symbolic")
            if b_ < 0:
                raise PyRaise(ValueError)
            return a_ * (2 ** b_)
        if isinstance(op, ast.BitAnd):
            s, c = (a_, b_) if is_sym(a_) else (b_, a_)
            if not is_sym(c) and c >= 0 and _pow2_exp(c + 1):
                return L.fmod(s, c + 1)
            if not is_sym(c) and c < 0 and _pow2_exp(-c):
                # x & ~(2^k-1)  = x - x mod 2^k
                return s - L.fmod(s, -c)
            if not is_sym(c) and 0 <= c and bin(c).count("1") <= 8:
                # x & C for a constant with few bits: sum over the set bits k of (floor(x / 2^k) mod 2) * 2^k
                # (Python's & on negative integers is two's complement of unbounded width: same formula)
                return _bits_of_const(s, c, lambda bit, k: bit * 2 ** k)
            raise Undecided("bitwise and with non-mask")
        if isinstance(op, ast.BitOr):
            # Int mode: a | b is accepted only with the proved side condition a = x * 2^k and 0 <= b < 2^k (then a | b = a + b)
            for x, y in ((a_, b_), (b_, a_)):
                if is_sym(x) and z3.is_app_of(x, z3.Z3_OP_MUL) and x.num_args() == 2:
                    cands = [arg for arg in x.children() if z3.is_int_value(arg)]
                    if cands and _pow2_exp(cands[0].as_long()):
                        k = cands[0].as_long()
                        if not ctx.feasible(lnot(land(L.toint(y) >= 0, L.toint(y) < k))):
                            return x + y
                if not is_sym(x) and x == 0:
                    return y
            s_, c_ = (a_, b_) if is_sym(a_) else (b_, a_)
            if is_sym(s_) and not is_sym(c_) and 0 <= c_ and bin(c_).count("1") <= 8:
                # x | C = x + sum over the set bits k of C that are clear in x of 2^k
                return s_ + _bits_of_const(s_, c_, lambda bit, k: (1 - bit) * 2 ** k)
            raise Undecided("bitwise or on unbounded integers without a provable disjoint-bits side condition")
        if isinstance(op, ast.BitXor):
            s_, c_ = (a_, b_) if is_sym(a_) else (b_, a_)
            if is_sym(s_) and not is_sym(c_) and 0 <= c_ and bin(c_).count("1") <= 8:
                # x ^ C = x + sum over the set bits k of C of (+2^k if clear in x else -2^k)
                return s_ + _bits_of_const(s_, c_, lambda bit, k: (1 - 2 * bit) * 2 ** k)
            raise Undecided("bitwise xor on unbounded integers (outside Int mode)")
        raise Undecided("int binop " + type(op).__name__)
    # bytes
    if isinstance(a, (Rope, bytes)) and isinstance(b, (Rope, bytes)) and isinstance(op, ast.Add):
        return simplify_native(as_rope(a) + as_rope(b))
    if isinstance(a, (Rope, bytes)) and isinstance(op, ast.Mult):
        if isinstance(b, int):
            return simplify_native(as_rope(a) * b)
        if is_sym(b) and z3.is_int(b) and len(as_rope(a)) == 1 and as_rope(a).is_concrete():
            from .seqs import ZSeq, rep
            return ZSeq(rep(as_rope(a).native()[0], b), "bytes", z3.If(b > 0, b, 0), [("rep", as_rope(a).native()[0], b)])
        raise Undecided("bytes repeated a symbolic number of times")
    # strings
    if isinstance(a, (str, SStr)) and isinstance(b, (str, SStr)) and isinstance(op, ast.Add):
        return mk_str([a, b])
    if isinstance(a, (str, SStr)) and isinstance(op, ast.Mult):
        if isinstance(a, str) and isinstance(b, int):
            return a * b
        if isinstance(a, str) and len(a) == 1 and is_sym(b) and z3.is_int(b):
            from .seqs import ZSeq, rep
            return ZSeq(rep(ord(a), b), "str", z3.If(b > 0, b, 0), [("rep", ord(a), b)])
        raise Undecided("string repeated a symbolic number of times")
    # lists / tuples
    if isinstance(op, ast.Mult) and (isinstance(a, Ref) or isinstance(b, Ref)):
        lst, k = (a, b) if isinstance(a, Ref) else (b, a)
        o = ctx.deref(lst)
        if isinstance(o, HList) and o.base is None and isinstance(k, int) and not isinstance(k, bool):
            return ctx.new_list(list(o.items) * k)
        raise Undecided("list repeated a symbolic number of times")
    if isinstance(op, ast.Add) and (isinstance(a, Ref) or isinstance(b, Ref)):
        la = iterate(ctx, a) if isinstance(a, (Ref, list)) else None
        lb = iterate(ctx, b) if isinstance(b, (Ref, list)) else None
        if la is not None and lb is not None:
            return ctx.new_list(la + lb)
        raise Undecided("list concat")
    if isinstance(op, ast.Add) and isinstance(a, tuple) and isinstance(b, tuple):
        return a + b
    if contains_sym(a) or contains_sym(b):
        raise Undecided(f"binop {type(op).__name__} on {type(a).__name__},{type(b).__name__}")
    import operator
    fn = {ast.Add: operator.add, ast.Sub: operator.sub, ast.Mult: operator.mul, ast.Div: operator.truediv,
          ast.FloorDiv: operator.floordiv, ast.Mod: operator.mod, ast.Pow: operator.pow,
          ast.LShift: operator.lshift, ast.RShift: operator.rshift, ast.BitAnd: operator.and_,
          ast.BitOr: operator.or_, ast.BitXor: operator.xor}[type(op)]
    try:
        return fn(a, b)
    except BaseException as ex:
        raise PyRaise(type(ex), str(ex))


def value_eq(ctx, a, b):
    a, b = simplify_native(a), simplify_native(b)
    if isinstance(a, Ref) or isinstance(b, Ref):
        if isinstance(a, Ref) and isinstance(b, Ref):
            oa, ob = ctx.deref(a), ctx.deref(b)
            if isinstance(oa, HObj):
                for k in oa.cls.__mro__:
                    if "__eq__" in vars(k) and k is not object:
                        return ctx.truthy(ctx.call_value(vars(k)["__eq__"], [a, b], {}))
                return a.oid == b.oid
            if isinstance(oa, HList) and isinstance(ob, HList):
                if oa.base is not None or ob.base is not None:
                    if a.oid == b.oid:
                        return True
                    raise Undecided("equality of symbolic lists")
                if len(oa.items) != len(ob.items):
                    return False
                return land(*[value_eq(ctx, x, y) for x, y in zip(oa.items, ob.items)])
            if isinstance(oa, HDict) and isinstance(ob, HDict):
                if set(oa.d) != set(ob.d):
                    return False
                return land(*[value_eq(ctx, oa.d[k], ob.d[k]) for k in oa.d])
            return a.oid == b.oid
        r, o = (a, b) if isinstance(a, Ref) else (b, a)
        ro = ctx.deref(r)
        if isinstance(ro, HList) and isinstance(o, (list,)):
            if ro.base is not None:
                raise Undecided("equality of symbolic list")
            if len(ro.items) != len(o):
                return False
            return land(*[value_eq(ctx, x, y) for x, y in zip(ro.items, o)])
        if isinstance(ro, HObj):
            for k in ro.cls.__mro__:
                if "__eq__" in vars(k) and k is not object:
                    if isinstance(a, Ref):
                        return ctx.truthy(ctx.call_value(vars(k)["__eq__"], [a, b], {}))
                    return False if o is None else _undec("reflected __eq__")
        return False
    if isinstance(a, tuple) and isinstance(b, tuple):
        if len(a) != len(b):
            return False
        return land(*[value_eq(ctx, x, y) for x, y in zip(a, b)])
    if isinstance(a, ModelObj) or isinstance(b, ModelObj):
        if a is b:
            return True
        raise Undecided("equality of model objects")
    return eq(a, b)


def _undec(msg):
    raise Undecided(msg)


def compare(ctx, op, a, b):
    a, b = simplify_native(a), simplify_native(b)
    if hasattr(a, "sym_compare"):
        r = a.sym_compare(ctx, op, b, False)
        if r is not NotImplemented:
            return r
    if hasattr(b, "sym_compare"):
        r = b.sym_compare(ctx, op, a, True)
        if r is not NotImplemented:
            return r
    if isinstance(op, ast.Eq):
        return value_eq(ctx, a, b)
    if isinstance(op, ast.NotEq):
        return lnot(value_eq(ctx, a, b))
    if isinstance(op, ast.Is):
        return _is(a, b)
    if isinstance(op, ast.IsNot):
        return lnot(_is(a, b))
    if isinstance(op, (ast.In, ast.NotIn)):
        r = contains(ctx, b, a)
        return r if isinstance(op, ast.In) else lnot(r)
    if _ints(a, b):
        if is_sym(a) or is_sym(b):
            a_ = z3.If(a, 1, 0) if is_sym(a) and z3.is_bool(a) else a
            b_ = z3.If(b, 1, 0) if is_sym(b) and z3.is_bool(b) else b
            if isinstance(op, ast.Lt):
                return a_ < b_
            if isinstance(op, ast.LtE):
                return a_ <= b_
            if isinstance(op, ast.Gt):
                return a_ > b_
            if isinstance(op, ast.GtE):
                return a_ >= b_
    if contains_sym(a) or contains_sym(b):
        if a is None or b is None:
            raise PyRaise(TypeError, "ordering with None")
        raise Undecided(f"comparison {type(op).__name__} on {type(a).__name__},{type(b).__name__}")
    import operator
    fn = {ast.Lt: operator.lt, ast.LtE: operator.le, ast.Gt: operator.gt, ast.GtE: operator.ge}[type(op)]
    try:
        return fn(a, b)
    except BaseException as ex:
        raise PyRaise(type(ex), str(ex))


def _is(a, b):
    if a is None or b is None:
        if a is None and b is None:
            return True
        o = a if b is None else b
        if hasattr(o, "sym_is_none"):
            return o.sym_is_none()
        return False
    if isinstance(a, Ref) and isinstance(b, Ref):
        return a.oid == b.oid
    if isinstance(a, bool) or isinstance(b, bool):
        if is_sym(a) or is_sym(b):
            return eq(a, b)
    return a is b


def contains(ctx, container, x):
    container = simplify_native(container)
    x = simplify_native(x)
    if hasattr(container, "sym_contains"):
        return container.sym_contains(ctx, x)
    if hasattr(x, "sym_in"):
        return x.sym_in(ctx, container)
    if isinstance(container, Ref):
        o = ctx.deref(container)
        if isinstance(o, HList):
            if o.base is not None:
                raise Undecided("membership in symbolic list")
            return lor(*[value_eq(ctx, x, y) for y in o.items])
        if isinstance(o, HDict):
            if contains_sym(x):
                return lor(*[value_eq(ctx, x, k) for k in o.d])
            return x in o.d
        raise Undecided("membership in heap object")
    if isinstance(container, (list, tuple, set, frozenset)) or type(container).__name__ in ("dict_values", "dict_keys"):
        if contains_sym(x):
            return lor(*[value_eq(ctx, x, y) for y in container])
        return x in container
    if isinstance(container, dict):
        if contains_sym(x):
            return lor(*[value_eq(ctx, x, y) for y in container])
        return x in container
    if isinstance(container, str):
        if isinstance(x, str):
            return x in container
        if hasattr(x, "sym_in_str"):
            return x.sym_in_str(ctx, container)
        raise Undecided("symbolic substring test")
    if isinstance(container, range):
        if type(x).__name__ == "LB":
            x = simplify_native(x.as_int())         # exact low-bits value as an integer term (inexact: UNDECIDED)
        if is_sym(x):
            if z3.is_bool(x) or not z3.is_int(x):
                raise Undecided("membership of a non-integer term in a range")
            if container.step == 1:
                return land(x >= container.start, x < container.stop)
            raise Undecided("membership in stepped range")
        if contains_sym(x) or isinstance(x, L.SymVal):
            raise Undecided(f"membership {type(x).__name__} in range")
        return x in container
    if isinstance(container, L.SymVal) or isinstance(x, L.SymVal):
        raise Undecided(f"membership {type(x).__name__} in {type(container).__name__}")
    if contains_sym(container) or contains_sym(x):
        raise Undecided(f"membership {type(x).__name__} in {type(container).__name__}")
    return x in container


def subscript(ctx, base, idx):
    base = simplify_native(base)
    if not isinstance(idx, slice):
        idx = simplify_native(idx)
    if hasattr(base, "sym_subscript"):
        return base.sym_subscript(ctx, idx)
    if isinstance(base, Ref):
        o = ctx.deref(base)
        if isinstance(o, HList):
            if o.base is not None:
                raise Undecided("index into symbolic list")
            if isinstance(idx, slice):
                if contains_sym(idx.start) or contains_sym(idx.stop):
                    raise Undecided("symbolic slice of list")
                return ctx.new_list(o.items[idx])
            if is_sym(idx):
                raise Undecided("symbolic index into list")
            try:
                return o.items[idx]
            except IndexError:
                raise PyRaise(IndexError)
        if isinstance(o, HDict):
            if contains_sym(idx):
                raise Undecided("symbolic dict key")
            if idx not in o.d:
                raise PyRaise(KeyError, repr(idx))
            return o.d[idx]
        raise Undecided("subscript on heap object")
    if isinstance(base, Rope):
        if isinstance(idx, slice):
            if contains_sym(idx.start) or contains_sym(idx.stop):
                raise Undecided("symbolic slice bounds on bytes")
            return simplify_native(base.slice(idx.start, idx.stop))
        if is_sym(idx):
            raise Undecided("symbolic index into bytes")
        try:
            return base[idx]
        except IndexError:
            raise PyRaise(IndexError)
    if isinstance(base, SStr):
        return sstr_subscript(ctx, base, idx)
    if isinstance(base, L.SymVal):
        raise Undecided("subscript of " + type(base).__name__)
    if isinstance(idx, slice):
        if contains_sym(idx.start) or contains_sym(idx.stop):
            if hasattr(idx.stop, "sym_slice_of") :
                return idx.stop.sym_slice_of(ctx, base, idx)
            raise Undecided("symbolic slice bounds")
        try:
            return base[idx]
        except BaseException as ex:
            raise PyRaise(type(ex), str(ex))
    if type(idx).__name__ == "LB" and isinstance(base, str) and 1 < len(base) <= 64 and idx.exact:
        # character table indexed by a small bit-vector: interpreted if-chain, IndexError outside
        from .lowbits import LB
        from .seqs import ZChar
        n = len(base)
        if not ctx.branch(z3.ULT(idx.v, z3.BitVecVal(n, 32))):
            raise PyRaise(IndexError)
        r = z3.BitVecVal(ord(base[0]), 32)
        for i in range(1, n):
            r = z3.If(idx.v == i, z3.BitVecVal(ord(base[i]), 32), r)
        return ZChar(LB(r, True, 21, origin=(base, idx)))
    if type(idx).__name__ == "LB":
        idx = idx.as_int()
    if is_sym(idx):
        h = ctx.opts.get("table_lookup")
        if h is not None:
            r = h(ctx, base, idx)
            if r is not None:
                return r
        if isinstance(base, (list, tuple)) and len(base) > 64 and all(isinstance(x, str) for x in base):
            # large constant table of words: opaque entry W(idx), injective iff the entries are pairwise distinct
            n = len(base)
            if not ctx.branch(land(idx >= 0, idx < n)):
                if ctx.branch(land(idx >= -n, idx < 0)):
                    idx = idx + n
                else:
                    raise PyRaise(IndexError)
            f = z3.Function(f"WORD_{n}_{__import__("zlib").crc32(repr(tuple(base)).encode())}", z3.IntSort(), PStr)
            return SStr([OStr(f(idx), "word", inj=("word", n, idx) if len(set(base)) == n else None)])
        if isinstance(base, str) and len(set(base)) == len(base) and len(base) > 1:
            from .seqs import Table, ZChar
            n = len(base)
            if not ctx.branch(land(idx >= 0, idx < n)):
                if ctx.branch(land(idx >= -n, idx < 0)):
                    idx = idx + n
                else:
                    raise PyRaise(IndexError)
            tab = Table.of(base)
            _table_ground(ctx, tab)
            return ZChar(tab.CH(idx))
        if isinstance(base, (list, tuple)) and all(isinstance(x, int) for x in base) and len(base) <= 64:
            # small integer table: if-chain, IndexError outside
            n = len(base)
            inr = ctx.branch(land(idx >= -n, idx < n))
            if not inr:
                raise PyRaise(IndexError)
            r = z3.IntVal(base[0])
            for i in range(1, n):
                r = z3.If(z3.Or(idx == i, idx == i - n), z3.IntVal(base[i]), r)
            return r
        if isinstance(base, dict) and len(base) <= 64 and all(isinstance(k, (int, str, bytes)) for k in base):
            r = _dict_lookup(ctx, base, idx)
            if r is not _NO:
                return r
            # small constant table keyed by plain values: decided key by key (KeyError when no key matches)
            for k in base:
                if ctx.branch(value_eq(ctx, idx, k)):
                    return lift_native(ctx, base[k])
            raise PyRaise(KeyError)
        if isinstance(base, (list, tuple)) and 0 < len(base) <= 16:
            # small constant sequence of arbitrary values (e.g. (mainnet, testnet) pairs indexed by a flag): decided
            # position by position, IndexError outside
            n = len(base)
            ii = z3.If(idx, 1, 0) if z3.is_bool(idx) else idx
            for i in range(n):
                if ctx.branch(lor(ii == i, ii == i - n)):
                    return lift_native(ctx, base[i])
            raise PyRaise(IndexError)
        raise Undecided("symbolic index into native container")
    if contains_sym(idx):
        if isinstance(base, dict) and len(base) <= 64 and all(isinstance(k, (int, str, bytes)) for k in base):
            r = _dict_lookup(ctx, base, idx)
            if r is not _NO:
                return r
            for k in base:
                if ctx.branch(value_eq(ctx, idx, k)):
                    return lift_native(ctx, base[k])
            raise PyRaise(KeyError)
        raise Undecided("symbolic (non-integer) index into native container")
    try:
        return base[idx]
    except BaseException as ex:
        raise PyRaise(type(ex), str(ex))


_NO = object()


def _dict_lookup(ctx, table, key):
    """table[key] for a constant dict with integer values and a symbolic character / integer key as ONE term:
    a single split on "key is in the table" (KeyError otherwise) instead of one split per key"""
    vals = list(table.values())
    if not vals or not all(isinstance(v, int) and not isinstance(v, bool) for v in vals):
        return _NO
    sentinel = min(vals) - 1
    t = table_term(ctx, table, simplify_native(key), sentinel)
    if t is None:
        return _NO
    from .lowbits import LB
    if isinstance(t, LB) or sentinel < 0:
        # (the bit-vector flavour cannot carry a negative sentinel: decide membership separately)
        member = lor(*[value_eq(ctx, key, k) for k in table])
        if not ctx.branch(member):
            raise PyRaise(KeyError)
        return table_term(ctx, table, simplify_native(key), vals[0])
    if not ctx.branch(t != sentinel):
        raise PyRaise(KeyError)
    return t


def table_term(ctx, table, key, default):
    """lookup in a small constant dict with integer values as ONE if-chain term (no path split per key): used when a
    loop looks characters / codes up in a table, where a split per key would be exponential.  None if not applicable."""
    if not table or not all(isinstance(v, int) and not isinstance(v, bool) for v in table.values()):
        return None
    if not (isinstance(default, int) and not isinstance(default, bool)):
        return None
    from .seqs import ZChar
    from .lowbits import LB
    code = None
    if isinstance(key, ZChar) and all(isinstance(k, str) and len(k) == 1 for k in table):
        code, keys = key.code, [ord(k) for k in table]
    elif (is_sym(key) and z3.is_int(key)) and all(isinstance(k, int) and not isinstance(k, bool) for k in table):
        code, keys = key, list(table)
    elif isinstance(key, LB) and key.exact and all(isinstance(k, int) and not isinstance(k, bool) and 0 <= k < 2 ** 32 for k in table):
        code, keys = key, list(table)
    if code is None:
        return None
    vals = list(table.values())
    if isinstance(code, LB):
        if not code.exact:
            return None
        if all(0 <= v < 2 ** 32 for v in vals + [default]):
            r = z3.BitVecVal(default, 32)
            for k, v in zip(keys, vals):
                r = z3.If(code.v == z3.BitVecVal(k, 32), z3.BitVecVal(v, 32), r)
            return LB(r, True, max([v.bit_length() for v in vals + [default]] + [1]))
        code = code.as_int()
    r = z3.IntVal(default)
    for k, v in zip(keys, vals):
        r = z3.If(code == k, z3.IntVal(v), r)
    return r


def _table_ground(ctx, tab):
    key = ("tab", id(tab))
    if key not in ctx.sink.split_cache:
        ctx.sink.split_cache[key] = True
        for f in tab.ground:
            ctx.sink.add(f)


def sstr_subscript(ctx, s, idx):
    parts = s.parts
    if isinstance(idx, slice):
        a, b = idx.start, idx.stop
        # supported: s[:-k] / s[-k:] / s[:k] / s[k:] when the affected end is a literal part
        if a is None and isinstance(b, int) and b < 0 and isinstance(parts[-1], str) and len(parts[-1]) >= -b:
            return mk_str(parts[:-1] + [parts[-1][:b]])
        if b is None and isinstance(a, int) and a < 0 and isinstance(parts[-1], str) and len(parts[-1]) >= -a:
            return parts[-1][a:]
        if a is None and isinstance(b, int) and b >= 0 and isinstance(parts[0], str) and len(parts[0]) >= b:
            return parts[0][:b]
        if b is None and isinstance(a, int) and a >= 0 and isinstance(parts[0], str) and len(parts[0]) >= a:
            return mk_str([parts[0][a:]] + parts[1:])
        raise Undecided(f"slice of structured string {s}[{a}:{b}]")
    if isinstance(idx, int):
        if idx < 0 and isinstance(parts[-1], str) and len(parts[-1]) >= -idx:
            return parts[-1][idx]
        if idx == -1 and isinstance(parts[-1], Dec):
            return DecChar(first=False)
        if idx >= 0 and isinstance(parts[0], str) and len(parts[0]) > idx:
            return parts[0][idx]
        h = ctx.opts.get("str_index")
        if h is not None:
            r = h(ctx, s, idx)
            if r is not None:
                return r
    raise Undecided(f"index into structured string {s}[{idx}]")


def to_str(ctx, v):
    """str(v)"""
    v = simplify_native(v)
    if isinstance(v, (str, SStr)):
        return v
    if is_sym(v) and z3.is_int(v):
        return SStr([Dec(v)])
    if isinstance(v, Ref):
        o = ctx.deref(v)
        if isinstance(o, HObj):
            for nm in ("__str__", "__repr__"):
                for k in o.cls.__mro__:
                    if k is object:
                        continue
                    if nm in vars(k):
                        return ctx.call_value(vars(k)[nm], [v], {})
        raise Undecided("str() of heap value")
    if isinstance(v, L.SymVal) and L.family(v) == "str":
        return v                    # str(s) is s for a string
    if contains_sym(v):
        return Opaque("str of symbolic")
    return str(v)


# ----------------------------------------------------------------------------- builtin methods
def builtin_method(ctx, kind, name, selfv, args, kwargs):
    if kind == "list":
        o = ctx.deref(selfv)
        if name == "append":
            o.items.append(args[0])
            ctx.writes.append((selfv.oid, "append"))
            return None
        if name == "extend":
            o.items.extend(iterate(ctx, args[0]))
            ctx.writes.append((selfv.oid, "extend"))
            return None
        if name == "copy":
            return ctx.new_list(o.items, o.base)
        if name in ("pop", "remove", "clear", "sort", "insert", "reverse"):
            raise Undecided(f"list.{name}")
        raise Undecided(f"list.{name}")
    if kind == "dict":
        o = ctx.deref(selfv)
        if name == "items":
            return [(k, v) for k, v in o.d.items()]
        if name == "keys":
            return list(o.d.keys())
        if name == "values":
            return list(o.d.values())
        if name == "get":
            k = args[0]
            if contains_sym(k):
                raise Undecided("symbolic dict key")
            return o.d.get(k, args[1] if len(args) > 1 else None)
        raise Undecided(f"dict.{name}")
    if kind == "bytesio":
        o = ctx.deref(selfv)
        if name == "read":
            if not args or args[0] is None:
                n = len(o.rope) - o.pos
            else:
                n = simplify_native(args[0])
            if is_sym(n):
                h = ctx.opts.get("sym_read")
                if h is not None:
                    return h(ctx, selfv, n)
                raise Undecided("read of a symbolic number of bytes")
            if n < 0:
                n = len(o.rope) - o.pos
            r = o.rope.slice(o.pos, min(len(o.rope), o.pos + n))
            o.pos = min(len(o.rope), o.pos + n)
            ctx.writes.append((selfv.oid, "pos"))
            return simplify_native(r)
        if name == "write" and len(args) == 1 and not kwargs:
            data = simplify_native(args[0])
            if not isinstance(data, (Rope, bytes, bytearray)):
                raise Undecided("BytesIO.write of " + type(data).__name__)
            data = as_rope(data)
            if o.pos != len(o.rope):
                raise Undecided("BytesIO.write in the middle of the buffer")
            o.rope = o.rope + data
            o.pos = len(o.rope)
            ctx.writes.append((selfv.oid, "pos"))
            return len(data)
        if name == "getvalue" and not args and not kwargs:
            return simplify_native(o.rope)
        if name == "tell" and not args and not kwargs:
            return o.pos
        raise Undecided(f"BytesIO.{name}")
    if kind == "bytes":
        r = as_rope(selfv)
        if name == "hex":
            if args or kwargs:
                raise Undecided("bytes.hex with a separator")
            if r.is_concrete():
                return r.native().hex()
            return HexStr(r)
        if name == "decode":
            raise Undecided("bytes.decode on symbolic")
        raise Undecided(f"bytes.{name}")
    if kind == "int":
        if name == "to_bytes":
            n = selfv
            length = simplify_native(args[0] if args else kwargs.get("length", 1))
            order = args[1] if len(args) > 1 else kwargs.get("byteorder", "big")
            if is_sym(length):
                raise Undecided("to_bytes with symbolic length")
            if len(args) > 2 or set(kwargs) - {"length", "byteorder", "signed"}:
                raise Undecided("to_bytes with unmodelled arguments")
            if isinstance(length, bool) or not isinstance(length, int):
                raise PyRaise(TypeError, "length must be an integer")
            if length < 0:
                raise PyRaise(ValueError, "length argument must be non-negative")
            if order not in ("big", "little"):
                if isinstance(order, str):
                    raise PyRaise(ValueError, "byteorder must be either 'little' or 'big'")
                raise Undecided("to_bytes byteorder")
            if kwargs.get("signed"):
                raise Undecided("signed to_bytes")
            ok = land(n >= 0, n < 256 ** length)
            # x mod 256^length is in range by construction: no solver call needed
            trivially = z3.is_app_of(n, z3.Z3_OP_MOD) and z3.is_int_value(n.arg(1)) and n.arg(1).as_long() == 256 ** length
            if not trivially and not ctx.branch(ok):
                raise PyRaise(OverflowError)
            if length == 0:
                return b""
            return Rope([(n, length, order == "little")])
        if name == "bit_length":
            raise Undecided("bit_length of symbolic")
        raise Undecided(f"int.{name}")
    if kind == "str":
        return sstr_method(ctx, name, selfv, args, kwargs)
    raise Undecided(f"{kind}.{name}")


class HexStr(L.SymVal):
    """bytes.hex() of a symbolic rope: only bytes.fromhex / equality are understood"""
    def __init__(self, rope):
        self.rope = rope

    def sym_eq(self, other):
        if isinstance(other, HexStrUpper):
            raise Undecided("lower-case hex text against upper-case hex text (equal iff no letters occur)")
        if isinstance(other, HexStr):
            return self.rope.eq(other.rope)
        if isinstance(other, str):
            try:
                return self.rope.eq(bytes.fromhex(other)) if len(other) == 2 * len(self.rope) and other == other.lower() and not any(c.isspace() for c in other) else False
            except ValueError:
                return False
        return L.unlike("str", other)

    def sym_getattr(self, ctx, name):
        if name == "upper":
            return lambda: HexStrUpper(self.rope)
        raise Undecided("HexStr." + name)


class HexStrUpper(HexStr):
    def sym_eq(self, other):
        if isinstance(other, HexStrUpper):
            return self.rope.eq(other.rope)
        if isinstance(other, HexStr):
            raise Undecided("upper-case hex text against lower-case hex text (equal iff no letters occur)")
        if isinstance(other, str):
            try:
                return self.rope.eq(bytes.fromhex(other)) if len(other) == 2 * len(self.rope) and other == other.upper() and not any(c.isspace() for c in other) else False
            except ValueError:
                return False
        return L.unlike("str", other)


def sstr_method(ctx, name, s, args, kwargs):
    if name == "split":
        sep = args[0] if args else None
        if len(args) > 1 or kwargs:
            raise Undecided("split with maxsplit / keyword arguments")
        if not isinstance(sep, str) or len(sep) != 1 or sep.isdigit() or sep == "-":
            raise Undecided("split of structured string")
        toks = [[]]
        for p in s.parts:
            if isinstance(p, str):
                pieces = p.split(sep)
                toks[-1].append(pieces[0])
                for q in pieces[1:]:
                    toks.append([q])
            elif isinstance(p, Dec):
                toks[-1].append(p)           # decimal renderings contain only digits and '-'
            else:
                raise Undecided("split over opaque string part")
        return ctx.new_list([mk_str(t) for t in toks])
    if name == "encode":
        enc = args[0] if args else kwargs.get("encoding", "utf-8")
        if enc not in ("utf-8", "utf8"):
            raise Undecided("encode with " + str(enc))
        if len(args) > 1 or set(kwargs) - {"encoding"}:
            raise Undecided("encode with an error handler")
        # ASSUMPTION U1 (DESIGN 2.8, reported in every evidence file): text inputs are well-formed Unicode, i.e.
        # contain no lone surrogate code points; for those str.encode('utf-8') raises UnicodeEncodeError.
        t = pstr_term(s)
        f = z3.Function("utf8", PStr, z3.IntSort())
        g = z3.Function("utf8len", PStr, z3.IntSort())
        L.sink().add(z3.And(f(t) >= 0, g(t) >= 0))
        return L.OBytes(f(t), g(t))
    if name == "isascii" and not args and not kwargs:
        # an uninterpreted predicate of the text; the one fact used: every Unicode normalisation form is the
        # identity on pure ASCII text (UAX #15), stated for this very term
        t = pstr_term(s)
        pred = z3.Function("isascii", PStr, z3.BoolSort())
        for form in ("NFC", "NFD", "NFKC", "NFKD"):
            nf = z3.Function("normalize_" + form, PStr, PStr)
            L.sink().add(z3.Implies(pred(t), nf(t) == t))
        return pred(t)
    if name == "format":
        raise Undecided("format on structured string")
    if name == "strip":
        raise Undecided("strip on structured string")
    raise Undecided(f"str.{name} on structured string")


def str_format(ctx, fmt, args, kwargs):
    """'..{}..'.format(...) with plain {} fields"""
    import string
    parts = []
    auto = 0
    for lit, field, spec, conv in string.Formatter().parse(fmt):
        if lit:
            parts.append(lit)
        if field is None:
            continue
        if spec or conv:
            raise Undecided("format spec")
        if field == "":
            v = args[auto]
            auto += 1
        elif field.isdigit():
            v = args[int(field)]
        else:
            v = kwargs[field]
        sv = to_str(ctx, v)
        if isinstance(sv, Opaque):
            return Opaque("formatted message")
        parts.append(sv)
    return mk_str(parts)


# ----------------------------------------------------------------------------- mocks (external objects by contract)
class Mock(L.SymVal):
    """an external / summarised object: attribute reads give preset values or child mocks; calls are
    recorded in ctx.effects (in order) and return preset results or child mocks"""
    def __init__(self, tag, attrs=None, results=None, raises=None):
        self.tag = tag
        self.attrs = dict(attrs or {})
        self.results = dict(results or {})      # method name -> value | callable(ctx, args, kwargs)
        self.raises = dict(raises or {})        # method name -> exception class

    def __repr__(self):
        return f"Mock({self.tag})"

    def sym_getattr(self, ctx, name):
        if name in self.attrs:
            return self.attrs[name]
        return MockMethod(self, name)

    def sym_truthy(self, ctx):
        return True

    def sym_eq(self, other):
        return other is self


class MockMethod(L.SymVal):
    def __init__(self, owner, name):
        self.owner, self.name = owner, name

    def sym_call(self, ctx, args, kwargs):
        ctx.effects.append((f"{self.owner.tag}.{self.name}", tuple(args), dict(kwargs)))
        if self.name in self.owner.raises:
            raise PyRaise(self.owner.raises[self.name])
        r = self.owner.results.get(self.name)
        if callable(r):
            return r(ctx, args, kwargs)
        if r is not None or self.name in self.owner.results:
            return r
        return Mock(f"{self.owner.tag}.{self.name}()", attrs=dict(_args=tuple(args), _kwargs=dict(kwargs), _of=self.owner))
