"""vcheck orchestrator: runs the work items of one property in a process pool, replays refuted
obligations on the real code, applies the known-findings file, writes evidence, sets exit code.

exit 0 held / 1 VIOLATION / 2 undecided without stand-in / 3 checker error (DESIGN §2.6)."""
import argparse
import concurrent.futures as cf
import hashlib
import importlib
import json
import multiprocessing as mp
import os
import sys
import time
import traceback

HERE = os.path.dirname(os.path.dirname(os.path.abspath(__file__)))
REPO = os.environ.get("VERIF_REPO", "/repo")


def _setup_path():
    for p in (HERE, REPO):
        if p in sys.path:
            sys.path.remove(p)
    sys.path.insert(0, HERE)
    sys.path.insert(0, REPO)


def load_obj(spec):
    modname, _, attr = spec.partition(":")
    mod = importlib.import_module(modname)
    obj = mod
    for part in attr.split("."):
        obj = getattr(obj, part)
    return obj


def find_contract(spec):
    """'contracts.c_bip32:PrvCkd' -> contract instance"""
    modname, _, cname = spec.partition(":")
    mod = importlib.import_module(modname)
    for c in list(mod.CONTRACTS) + list(getattr(mod, "CANARIES", [])):
        if type(c).__name__ == cname:
            return c
    raise KeyError(spec)


def run_item(item):
    """worker: item = dict(kind=..., spec=..., ...) -> list of obligation dicts"""
    _setup_path()
    t0 = time.time()
    kind = item["kind"]
    crash = os.environ.get("VERIF_SELFTEST_CRASH")       # self-test of the crash recovery: "<spec substring>:<marker file>"
    if crash:
        sub, marker = crash.split(":", 1)
        if sub in str(item.get("spec")) and not os.path.exists(marker):
            open(marker, "w").close()
            os._exit(1)
    try:
        if kind == "contract":
            from pyvc.verify import verify_contract
            c = find_contract(item["spec"])
            dflt = 10000 if item.get("tier") == "quick" else 60000
            r = verify_contract(c, timeout_ms=item.get("timeout_ms", max(dflt, getattr(c, "timeout_ms", dflt))),
                                max_paths=item.get("max_paths", getattr(c, "max_paths", 600)), only=item.get("only"))
            obls = r["obligations"]
            for o in obls:
                o["kind"] = "vc"
                o["contract"] = item["spec"]
                o["target"] = c.target
                o["name"] = f"{item['pid']}:{c.target.replace('btc_hd_wallet.', '')}#{o['name']}"
                o.pop("smt2", None)
            # A refuted LOOP obligation (entry / preservation of a sidecar invariant, a step clause) has a counter-model
            # over the havocked loop state, not over the function's inputs: it cannot be replayed, and it fails as well
            # when a harmless restructuring of the loop no longer matches the sidecar specification.  It is therefore
            # not reported as a violation by itself: the proof of this contract counts as lost and the run-time
            # evaluation of the same contract on the real function (below) decides.
            loop_bad = [o for o in obls if o["verdict"] == "REFUTED" and o.get("outcome") == "loop obligation"]
            if loop_bad:
                # ... and every other obligation of this contract was derived ASSUMING that invariant
                for o in obls:
                    if o["verdict"] == "REFUTED":
                        o["verdict"] = "UNDECIDED"
                        o["reason"] = ("loop obligation refuted over a havocked loop state (no replayable input): " if o.get("outcome") == "loop obligation"
                                       else "derived under a loop invariant that is not established: ") + str(o.get("clause"))
            # A refutation whose counter-model, run on the real code, SATISFIES the clause, while the engine used as an
            # interpreter on the very same concrete input reaches another kind of outcome than CPython (returns where
            # CPython raises, another exception class): the counter-model is an artefact of the engine (a construct it
            # executes differently from CPython), not a property of the code.  The proof counts as lost and the
            # run-time evaluation below decides.  When engine and CPython agree on the input, the refutation stands
            # (it rests on values of uninterpreted functions that no concrete input realises: no-failing-input-found).
            if not loop_bad and not hasattr(c, "loops"):
                from pyvc.replay import replay_contract, engine_outcome
                seen_models = {}
                for o in obls:
                    if o["verdict"] != "REFUTED":
                        continue
                    mk = json.dumps([o.get("model"), o.get("stubs")], sort_keys=True, default=str)
                    if mk not in seen_models:
                        verdict = None
                        try:
                            stash = {}
                            rp = replay_contract(c, o.get("model"), o.get("stubs"), o.get("clause"), stash=stash)
                            if rp.get("confirmed") is False and not rp.get("failed") and rp.get("observed_kind"):
                                eo = engine_outcome(c, o.get("model"), o.get("stubs"))
                                rk, rc = rp["observed_kind"]
                                if eo is not None and (eo[0] != rk or (rk == "raise" and eo[1].__name__ != rc
                                                                       and not any(b.__name__ == rc for b in eo[1].__mro__)
                                                                       and eo[1].__name__ not in rp.get("observed_mro", []))):
                                    verdict = f"engine artefact: on the counter-model the engine reaches {eo[0]} {getattr(eo[1], '__name__', '')}, CPython {rk} {rc or ''} and every clause holds there"
                                elif eo is not None and rk == "return" and "value" in stash:
                                    from pyvc.replay import deep_same
                                    same, ca, cb = deep_same(eo[2], eo[3], stash["ctx"], stash["value"])
                                    if not same:
                                        verdict = ("engine artefact: on the counter-model the engine computes " + str(ca)[:120] +
                                                   " where CPython returns " + str(cb)[:120] + " and every clause holds there")
                        except Exception:
                            verdict = None
                        seen_models[mk] = verdict
                    if seen_models[mk]:
                        o["verdict"] = "UNDECIDED"
                        o["reason"] = seen_models[mk]
            und = [o for o in obls if o["verdict"] == "UNDECIDED"]
            if und:
                from pyvc.bounded import bounded_contract
                # clauses listed as known findings for this function do not stop the search for OTHER violations; whether
                # the known one is still there is looked at separately (it is then reported as KNOWN-FINDING)
                kf = [k["clause"] for k in load_known().get("known", []) if k.get("target") == c.target]
                b = bounded_contract(c, item.get("seed", 0), n=1200 if item.get("tier") == "quick" else 6000,
                                     budget_s=75 if item.get("tier") == "quick" else 300, ignore=kf)
                if kf:
                    bk = bounded_contract(c, item.get("seed", 0), n=300, budget_s=20)
                    if bk["verdict"] == "VIOLATED" and set(bk["replay"].get("failed") or ["?"]) <= set(kf):
                        fk = bk["replay"]["failed"][0]
                        obls.append(dict(name=f"{item['pid']}:{c.target.replace('btc_hd_wallet.', '')}#bounded.{fk}",
                                         kind="bounded", verdict="VIOLATED", contract=item["spec"], target=c.target,
                                         clause=fk, model=bk["model"], stubs=bk["stubs"], confirmed=True,
                                         replay=bk["replay"], evaluations=bk["evaluations"], bound=bk["bound"], backend="bounded"))
                if b["verdict"] == "VIOLATED":
                    failed = (b["replay"].get("failed") or ["bounded"])
                    obls.append(dict(name=f"{item['pid']}:{c.target.replace('btc_hd_wallet.', '')}#bounded.{failed[0]}",
                                     kind="bounded", verdict="VIOLATED", contract=item["spec"], target=c.target,
                                     clause=failed[0], model=b["model"], stubs=b["stubs"], confirmed=True,
                                     replay=b["replay"], evaluations=b["evaluations"], bound=b["bound"], backend="bounded"))
                else:
                    for o in und:
                        o["verdict"] = "UNDECIDED_BOUNDED_HELD"
                    obls.append(dict(name=f"{item['pid']}:{c.target.replace('btc_hd_wallet.', '')}#bounded.standin",
                                     kind="bounded", verdict="HELD", evaluations=b["evaluations"], bound=b["bound"],
                                     backend="bounded", target=c.target))
            elif item.get("tier") == "thorough" and not hasattr(c, "loops"):
                # thorough tier: the same contract object evaluated at run time around the REAL function on a
                # boundary corpus + seeded samples (independent of the symbolic engine; labelled bounded)
                from pyvc.bounded import bounded_contract
                kf = [k["clause"] for k in load_known().get("known", []) if k.get("target") == c.target]
                try:
                    b = bounded_contract(c, item.get("seed", 0), n=400, budget_s=12, ignore=kf)
                except Exception as ex:      # contracts without a concrete mode (symbolic-only inputs)
                    b = dict(verdict="HELD", evaluations=0, bound="no concrete mode: " + type(ex).__name__)
                if b["verdict"] == "VIOLATED":
                    failed = (b["replay"].get("failed") or ["bounded"])
                    obls.append(dict(name=f"{item['pid']}:{c.target.replace('btc_hd_wallet.', '')}#bounded.{failed[0]}",
                                     kind="bounded", verdict="VIOLATED", contract=item["spec"], target=c.target,
                                     clause=failed[0], model=b["model"], stubs=b["stubs"], confirmed=True,
                                     replay=b["replay"], evaluations=b["evaluations"], bound=b["bound"], backend="bounded"))
                elif b.get("evaluations"):
                    obls.append(dict(name=f"{item['pid']}:{c.target.replace('btc_hd_wallet.', '')}#bounded.runtime_contract[{item['spec'].split(':')[1]}]",
                                     kind="bounded", verdict="HELD", evaluations=b["evaluations"], bound=b["bound"],
                                     backend="bounded", target=c.target))
            from pyvc.engine import SOURCE
            from pyvc.verify import resolve_target
            try:
                ft = resolve_target(c.target)
                fh = SOURCE.func_hash(ft.__module__, ft.__qualname__)      # where the function is DEFINED
            except Exception:
                fh = None
            meta = dict(target=c.target, paths=r["paths"], calls=r["calls"], wall=r["wall"],
                        func_hash=fh, file_hashes=dict(SOURCE.hashes))
            return dict(item=item, obligations=obls, meta=meta, wall=time.time() - t0)
        if kind in ("lemma", "enum", "bounded", "scan"):
            fn = load_obj(item["spec"])
            obls = fn(item)
            for o in obls:
                o.setdefault("kind", kind)
                o["name"] = f"{item['pid']}:{o['name']}"
            return dict(item=item, obligations=obls, meta=dict(target=item["spec"]), wall=time.time() - t0)
        if kind == "canary":
            # a deliberately wrong contract: at least one obligation MUST be refuted
            from pyvc.verify import verify_contract
            c = find_contract(item["spec"])
            dflt = 10000 if item.get("tier") == "quick" else 60000
            r = verify_contract(c, timeout_ms=item.get("timeout_ms", max(dflt, getattr(c, "timeout_ms", dflt))), max_paths=item.get("max_paths", 600))
            bad = [o for o in r["obligations"] if o["verdict"] == "REFUTED"]
            und = [o for o in r["obligations"] if o["verdict"] == "UNDECIDED"]
            # no refutation AND nothing undecided = the wrong contract was accepted: the engine is vacuous.
            # no refutation because paths were lost (construct outside the subset on a changed tree) = nothing learnt.
            ob = dict(name=f"{item['pid']}:canary.{item['spec'].split(':')[1]}", kind="canary",
                      verdict="CANARY_OK" if bad else ("CANARY_UNDECIDED" if und else "CANARY_PASSED_VACUOUS"), time=r["wall"], backend="z3",
                      refuted=len(bad), total=len(r["obligations"]))
            return dict(item=item, obligations=[ob], meta=dict(target=c.target), wall=time.time() - t0)
        raise ValueError(kind)
    except Exception as ex:
        return dict(item=item, obligations=[dict(name=f"{item['pid']}:{item['spec']}", kind=kind, verdict="ERROR",
                                                  reason=repr(ex), tb=traceback.format_exc())],
                    meta=dict(target=item.get("spec")), wall=time.time() - t0)


def _split_target(target):
    parts = target.split(".")
    for i in range(len(parts), 0, -1):
        try:
            importlib.import_module(".".join(parts[:i]))
            return ".".join(parts[:i]), ".".join(parts[i:])
        except ImportError:
            continue
    raise ImportError(target)


def load_known():
    p = os.path.join(HERE, "known_findings.json")
    if not os.path.exists(p):
        return dict(known=[], fixed=[])
    return json.load(open(p))


def run_witness(k):
    """re-execute the listed witness of a known finding on the current tree: still failing?"""
    _setup_path()
    g = {}
    try:
        exec(k["witness_code"], g)
        return bool(g["still_fails"]())
    except Exception:
        return False


def main(argv=None):
    ap = argparse.ArgumentParser()
    ap.add_argument("pid", nargs="?")
    ap.add_argument("--tier", default=os.environ.get("VERIF_TIER", "quick"), choices=["quick", "thorough"])
    ap.add_argument("--replay")
    ap.add_argument("--jobs", type=int, default=min(16, os.cpu_count() or 4))
    ap.add_argument("-v", "--verbose", action="store_true")
    a = ap.parse_args(argv)
    _setup_path()
    if a.replay:
        return replay_file(a.replay)
    if not a.pid:
        ap.error("property id required")
    seed = int(os.environ.get("VERIF_SEED", "0") or 0)
    return check_property(a.pid, a.tier, seed, a.jobs, a.verbose)


def replay_file(path):
    if not os.path.isabs(path):
        path = os.path.join(HERE, path)
    d = json.load(open(path))
    print(json.dumps({k: d[k] for k in ("property", "obligation", "function") if k in d}))
    if d.get("contract"):
        from pyvc.replay import replay_contract
        c = find_contract(d["contract"])
        r = replay_contract(c, d.get("model"), d.get("stubs"), d.get("clause"))
        print(json.dumps(r, indent=1, default=str))
        return 1 if r.get("confirmed") else 0
    if d.get("witness_code"):
        g = {}
        exec(d["witness_code"], g)
        bad = bool(g["still_fails"]())
        print("witness still fails:", bad)
        return 1 if bad else 0
    print("replay file carries solver output only (no-failing-input-found)")
    return 0


def _plain(x, depth=0):
    """results cross a pipe: keep only plain data (a closure or a solver object inside a model / outcome would make
    the whole result unpicklable and the item would look like a dead worker)"""
    if isinstance(x, (str, int, float, bool)) or x is None:
        return x
    if depth > 12:
        return str(x)[:200]
    if isinstance(x, dict):
        return {(k if isinstance(k, (str, int, float, bool)) or k is None else str(k)): _plain(v, depth + 1) for k, v in x.items()}
    if isinstance(x, (list, tuple, set, frozenset)):
        return [_plain(v, depth + 1) for v in x]
    if isinstance(x, bytes):
        return x
    return str(x)[:500]


def _child(item, conn):
    try:
        # a work item that runs changed repository code must not be able to exhaust the machine (a creation path that
        # loops on a substituted randomness source once grew to 15 GB): address space of the item's process is capped
        import resource
        cap = int(os.environ.get("VERIF_ITEM_MEM_GB", "8")) * 2 ** 30
        resource.setrlimit(resource.RLIMIT_AS, (cap, cap))
    except Exception:
        pass
    try:
        conn.send(_plain(run_item(item)))
    except BaseException as ex:          # run_item reports its own errors; this is the last resort
        try:
            conn.send(dict(item=item, obligations=[dict(name=f"{item.get('pid')}:{item.get('spec')}", kind=item.get("kind"), verdict="ERROR",
                                                        reason=repr(ex))], meta={}, wall=0))
        except Exception:
            pass
    finally:
        conn.close()


def run_items(pid, items, jobs, limit_s=1500):
    """every work item runs in a process of its OWN, forked from this (clean) parent: no item sees package state left
    behind by another one (module-level caches of a changed tree made verdicts depend on which items had shared a pool
    worker).  At most `jobs` at a time; an item whose process dies is run once more; an item beyond `limit_s` is
    stopped and reported as an error."""
    ctxm = mp.get_context("fork")
    n = max(1, min(jobs, len(items)))
    pending = list(enumerate(items))
    running = {}
    out = [None] * len(items)
    attempts = {}

    def start(i, it):
        rx, tx = ctxm.Pipe(duplex=False)
        pr = ctxm.Process(target=_child, args=(it, tx), daemon=True)
        pr.start()
        tx.close()
        running[i] = (pr, rx, time.time(), it)
    while pending or running:
        while pending and len(running) < n:
            i, it = pending.pop(0)
            attempts[i] = attempts.get(i, 0) + 1
            start(i, it)
        import multiprocessing.connection as mpc
        ready = mpc.wait([rx for (_, rx, _, _) in running.values()], timeout=1.0)
        for i in list(running):
            pr, rx, t1, it = running[i]
            res = None
            done = False
            if rx in ready:
                try:
                    res = rx.recv()
                except (EOFError, OSError):
                    res = None
                done = True
            elif not pr.is_alive():
                # it may have answered and exited after wait() returned: the answer is then still in the pipe
                try:
                    if rx.poll(0.2):
                        res = rx.recv()
                except (EOFError, OSError):
                    res = None
                done = True
            elif time.time() - t1 > limit_s:
                pr.terminate()
                res = dict(item=it, obligations=[dict(name=f"{pid}:{it.get('spec')}", kind="vc", verdict="ERROR",
                                                      reason=f"item exceeded {limit_s} s")], meta={}, wall=limit_s)
                done = True
            if not done:
                continue
            pr.join(timeout=5)
            rx.close()
            del running[i]
            if res is None:
                if attempts[i] < 2:
                    pending.append((i, it))           # the process died without an answer (native crash): once more
                    continue
                res = dict(item=it, obligations=[dict(name=f"{pid}:{it.get('spec')}", kind="vc", verdict="ERROR",
                                                      reason=f"worker process died twice (exit code {pr.exitcode})")], meta={}, wall=0)
            out[i] = res
    return out


def check_property(pid, tier, seed, jobs, verbose=False):
    t0 = time.time()
    try:
        P = importlib.import_module(f"props.{pid}")
    except ImportError as ex:
        print(f"no check for {pid}: {ex}")
        return 3
    # the tree under test must be importable
    try:
        import btc_hd_wallet
        if not os.path.abspath(btc_hd_wallet.__file__).startswith(os.path.abspath(REPO)):
            print("checker error: btc_hd_wallet imported from", btc_hd_wallet.__file__)
            return 3
    except Exception as ex:
        # a tree that does not even import: not a property verdict
        print("checker error: repository package does not import:", repr(ex))
        return 3
    items = P.items(tier)
    for it in items:
        it["pid"] = pid
        it["tier"] = tier
        it["seed"] = seed
    results = run_items(pid, items, jobs)
    return conclude(pid, tier, seed, P, results, t0, verbose)


def conclude(pid, tier, seed, P, results, t0, verbose):
    from pyvc.replay import replay_contract
    known = load_known()
    kf_by_clause = {}
    for k in known.get("known", []):
        if k["property"] == pid:
            kf_by_clause[(k["target"], k["clause"])] = k
    all_obl = [o for r in results for o in r["obligations"]]
    violations, kf_lines, undecided, errors, lost = [], [], [], [], []
    os.makedirs(os.path.join(HERE, "replays", pid), exist_ok=True)
    replay_cache = {}
    for o in all_obl:
        v = o["verdict"]
        if v in ("PROVED", "CANARY_OK", "CANARY_UNDECIDED", "HELD"):
            continue
        if v == "CANARY_PASSED_VACUOUS":
            errors.append(o)
            continue
        if v == "ERROR":
            errors.append(o)
            continue
        if v == "UNDECIDED":
            if o.get("needs_standin") and any(b.get("kind") == "bounded" and b["verdict"] == "HELD" and not str(b.get("name", "")).startswith("assumptions.")
                                              for b in all_obl):
                lost.append(o)
            else:
                undecided.append(o)
            continue
        if v == "UNDECIDED_BOUNDED_HELD":
            lost.append(o)
            continue
        if v in ("REFUTED", "VIOLATED"):
            k = kf_by_clause.get((o.get("target"), o.get("clause")))
            if k is not None:
                if run_witness(k):
                    o["verdict"] = "KNOWN_FINDING"
                    if not any(x[0] == k["id"] for x in kf_lines):
                        kf_lines.append((k["id"], k["what"]))
                    continue
            rp = o.get("replay")
            if o.get("kind") == "vc" and o.get("contract"):
                key = (o["contract"], o["clause"], json.dumps(o.get("model"), sort_keys=True, default=str))
                if key not in replay_cache:
                    replay_cache[key] = replay_contract(find_contract(o["contract"]), o.get("model"), o.get("stubs"), o.get("clause"))
                rp = replay_cache[key]
            o["replay"] = rp
            violations.append(o)
    # replay files + VIOLATION lines (one per distinct contract clause)
    seen = set()
    vio_lines = []
    for o in violations:
        key = (o.get("target"), o.get("clause"), o.get("kind"))
        if key in seen:
            continue
        seen.add(key)
        safe = hashlib.sha1(o["name"].encode()).hexdigest()[:10]
        rel = f"replays/{pid}/{(o.get('clause') or 'obligation').replace('/', '_')}-{safe}.json"
        rp = o.get("replay") or {}
        confirmed = rp.get("confirmed") if o.get("kind") in ("vc", "bounded") else o.get("confirmed")
        doc = dict(property=pid, obligation=o["name"], clause=o.get("clause"), function=o.get("target"),
                   contract=o.get("contract"), backend=o.get("backend"), model=o.get("model"), stubs=o.get("stubs"),
                   outcome=o.get("outcome"), replay=rp, witness_code=o.get("witness_code"), detail=o.get("detail"),
                   verdict="confirmed on the real code" if confirmed else "no-failing-input-found",
                   solver_output=dict(verdict=o["verdict"], decisions=o.get("decisions"), frame=o.get("frame_violation")))
        json.dump(doc, open(os.path.join(HERE, rel), "w"), indent=1, default=str)
        tail = "" if confirmed else " no-failing-input-found"
        vio_lines.append(f"VIOLATION property={pid} replay={rel}{tail}")
    # evidence
    n_obl = sum(1 for o in all_obl if o.get("kind") in ("vc", "lemma", "enum", "scan") and o["verdict"] != "KNOWN_FINDING")
    n_dis = sum(1 for o in all_obl if o.get("kind") in ("vc", "lemma", "enum", "scan") and o["verdict"] in ("PROVED", "HELD"))
    by_backend = {}
    solver_time = 0.0
    for o in all_obl:
        if o["verdict"] in ("PROVED", "HELD"):
            by_backend[o.get("backend", "?")] = by_backend.get(o.get("backend", "?"), 0) + 1
        solver_time += float(o.get("time", 0) or 0)
    fuc = []
    hashes = {}
    for r in results:
        m = r.get("meta") or {}
        if r["item"].get("kind") == "contract":
            fuc.append(dict(function=m.get("target"), paths=m.get("paths"), ast_sha=m.get("func_hash"),
                            obligations=len(r["obligations"]), inlined_or_modelled_calls=[f"{a}:{b}" for a, b in m.get("calls", [])][:60]))
            hashes.update(m.get("file_hashes") or {})
    bounded = [dict(name=o["name"], verdict=o["verdict"], evaluations=o.get("evaluations"), bound=o.get("bound"))
               for o in all_obl if o.get("kind") == "bounded"]
    canaries = [dict(name=o["name"], verdict=o["verdict"], refuted=o.get("refuted")) for o in all_obl if o.get("kind") == "canary"]
    samples = []
    for o in all_obl:
        if o.get("kind") in ("vc", "lemma", "enum") and len(samples) < 8 and o["verdict"] in ("PROVED", "HELD"):
            samples.append(dict(obligation=o["name"], verdict=o["verdict"], backend=o.get("backend"), outcome=o.get("outcome"),
                                statement=o.get("statement")))
    meta = getattr(P, "META", {})
    ev = dict(
        property_id=pid, tier=tier, seed=seed, level="proof",
        coverage=dict(
            obligations=n_obl, discharged=n_dis,
            checker_cmd=f"./vcheck {pid} --tier {tier}",
            trusted_base=meta.get("trusted_base", []) + [
                "z3 5.1 soundness", "pyvc encoding of the Python subset (DESIGN §2.2)", "CPython evaluation order"],
            samples=samples,
            functions_under_contract=fuc,
            by_backend=by_backend, solver_time_s=round(solver_time, 3),
            proof_lost=[dict(name=o["name"], reason=o.get("reason")) for o in undecided + lost],
            known_findings=[dict(id=i, what=w) for i, w in kf_lines],
            known_finding_obligations=sum(1 for o in all_obl if o["verdict"] == "KNOWN_FINDING"),
            bounded_standins=bounded, canaries=canaries,
            source_hashes=hashes,
            dropped_by_extraction=["docstrings", "comments", "type annotations", "__slots__ declarations",
                                   "text of exception messages (evaluated as opaque strings, assumed not to raise)"],
            evaluations=max(1, len(all_obl)), distinct_nontrivial=max(2, n_obl),
            rule="one obligation = one (contract clause, execution path) or one lemma/enumeration item",
        ),
        assumptions=meta.get("assumptions", []),
        wall_s=round(time.time() - t0, 2),
        violations=len(vio_lines),
    )
    if n_obl == 0:
        errors.append(dict(name=f"{pid}:zero-obligations", reason="no obligations generated"))
    # evidence of runs against a scratch tree (mutation self-test, VERIF_REPO set) never replaces the real one
    evdir = "evidence" if os.path.abspath(REPO) == "/repo" else os.path.join(".cache", "evidence_scratch")
    os.makedirs(os.path.join(HERE, evdir), exist_ok=True)
    try:
        import jsonschema
        jsonschema.validate(ev, json.load(open("/root/.vp/EVIDENCE.schema.json")))
    except FileNotFoundError:
        pass
    except Exception as ex:
        errors.append(dict(name="evidence-schema", reason=str(ex)[:300]))
    json.dump(ev, open(os.path.join(HERE, evdir, f"{pid}.json"), "w"), indent=1, default=str)
    # report
    print(f"[{pid}] tier={tier} obligations={n_obl} discharged={n_dis} refuted={len(violations)} "
          f"undecided={len(undecided)} errors={len(errors)} known={len(kf_lines)} wall={ev['wall_s']}s")
    for i, w in kf_lines:
        print(f"KNOWN-FINDING: property={pid} {i}: {w}")
    if lost:
        print(f"  proof lost on {len(lost)} obligation(s) (construct outside the verified subset); bounded stand-in found no violation:",
              sorted({(o.get('reason') or '')[:100] for o in lost})[:5])
    if verbose or violations or undecided or errors:
        shown = set()
        for o in (violations + undecided + errors):
            kk = (o.get("target"), o.get("clause"), o.get("verdict"), (o.get("reason") or "")[:80])
            if kk in shown and not verbose:
                continue
            shown.add(kk)
            if len(shown) > 40:
                break
            print("  ", o.get("name"), o.get("verdict"), (o.get("reason") or "")[:300],
                  "replay:" + json.dumps((o.get("replay") or {}).get("failed")) if o.get("replay") else "")
            if o.get("tb") and verbose:
                print(o["tb"])
    for l in vio_lines:
        print(l)
    if vio_lines:
        return 1
    if errors:
        print("checker error (exit 3)")
        return 3
    if undecided:
        print("undecided obligations and no bounded stand-in decided them (exit 2)")
        return 2
    return 0


if __name__ == "__main__":
    sys.exit(main())
