import sys
sys.set_int_max_str_digits(0)
sys.setrecursionlimit(10000)
