"""Strings and byte strings of SYMBOLIC length as z3 sequences of integers (character codes / byte
values).  Encoding rules of DESIGN §2.2: alphabet membership/index are table abstractions; loop
elements are taken with SubSeq; recursive spec functions are uninterpreted with unfoldings supplied
as instances at the loop index."""
import ast
import z3
from . import logic as L
from .logic import SymVal, is_sym, land, lor, lnot, eq, sink, simplify_native, Rope
from .engine import Undecided, PyRaise

ISeq = z3.SeqSort(z3.IntSort())


def lit(x):
    """python str/bytes -> z3 sequence literal"""
    if isinstance(x, str):
        codes = [ord(c) for c in x]
    else:
        codes = list(x)
    if not codes:
        return z3.Empty(ISeq)
    if len(codes) == 1:
        return z3.Unit(z3.IntVal(codes[0]))
    return z3.Concat(*[z3.Unit(z3.IntVal(c)) for c in codes])


_rep = z3.Function("rep", z3.IntSort(), z3.IntSort(), ISeq)          # rep(code, k) = [code] * k


def rep(code, k):
    t = _rep(L.toint(code), L.toint(k))
    S = sink()
    S.add(z3.Length(t) == z3.If(L.toint(k) > 0, L.toint(k), 0))
    return t


def rep_unfold(code, k):
    """instance: rep(c, k+1) = rep(c, k) ++ [c]   (k >= 0)"""
    c, k = L.toint(code), L.toint(k)
    return z3.Implies(k >= 0, z3.And(_rep(c, k + 1) == z3.Concat(_rep(c, k), z3.Unit(c)),
                                     z3.Length(_rep(c, k)) == k, z3.Length(_rep(c, k + 1)) == k + 1))


class ZSeq(SymVal):
    """`length`: the length as a linear-arithmetic term kept alongside the sequence term (so that length
    reasoning never needs the sequence solver); `parts`: provenance of byte strings assembled from slices of
    a symbolic base, literals, repeated bytes and ropes (used for structural comparison of paddings)"""
    def __init__(self, term, kind, length=None, parts=None):
        self.t = term
        self.kind = kind            # "str" | "bytes"
        self.len_expr = length
        self.parts = parts

    @staticmethod
    def sym(name, kind):
        t = z3.Const(name, ISeq)
        n = z3.Int(name + "_len")
        sink().add(z3.And(n >= 0, z3.Length(t) == n))
        return ZSeq(t, kind, n, [("sym", t)])

    @staticmethod
    def of(x):
        return ZSeq(lit(x), "str" if isinstance(x, str) else "bytes", len(x), [("lit", x)])

    def length(self):
        return self.len_expr if self.len_expr is not None else z3.Length(self.t)

    def sym_len(self, ctx=None):
        return self.length()

    def sym_type(self):
        return str if self.kind == "str" else bytes

    def sym_truthy(self, ctx):
        return self.length() > 0

    def at(self, i):
        """element i as an integer (caller guarantees 0 <= i < len)"""
        return self.t[L.toint(i)]

    def sym_eq(self, other):
        o = coerce(other, self.kind)
        if o is None or getattr(o, "kind", self.kind) != self.kind:
            return L.unlike("bytes" if self.kind == "bytes" else "str", other)
        return self.t == o.t

    def sym_subscript(self, ctx, idx):
        n = self.length()
        if isinstance(idx, slice):
            a, b = simplify_native(idx.start), simplify_native(idx.stop)

            def norm(v, default):
                if v is None:
                    return default
                v = L.toint(v)
                # bounds that are provably inside [0, len] need no clamping (keeps the terms small)
                if not ctx.feasible(z3.Not(z3.And(v >= 0, v <= n))):
                    return v
                return z3.If(v < 0, z3.If(n + v < 0, 0, n + v), z3.If(v > n, n, v))
            lo = norm(a, z3.IntVal(0))
            hi = norm(b, L.toint(n))
            if not ctx.feasible(z3.Not(hi >= lo)):
                ln = z3.simplify(hi - lo)
            else:
                ln = z3.If(hi > lo, hi - lo, 0)
            base = self.parts is not None and len(self.parts) == 1 and self.parts[0][0] == "sym"
            return ZSeq(z3.SubSeq(self.t, lo, ln), self.kind, ln, [("slice", self.t, lo, ln)] if base else None)
        idx = simplify_native(idx)
        i = L.toint(idx)
        real = z3.If(i < 0, n + i, i)
        if not ctx.branch(z3.And(real >= 0, real < n)):
            raise PyRaise(IndexError)
        if self.kind == "bytes":
            return self.t[real]
        return ZChar(self.t[real])

    def sym_binop(self, ctx, op, other, reflected):
        if isinstance(op, ast.Add):
            o = coerce(other, self.kind)
            if o is None or o.kind != self.kind:
                fam = L.family(other)
                if fam is not None and fam != ("bytes" if self.kind == "bytes" else "str"):
                    raise PyRaise(TypeError, "concat")
                raise Undecided("concatenation with a value of another representation")
            a, b = (o, self) if reflected else (self, o)
            ln = None if a.len_expr is None or b.len_expr is None else a.len_expr + b.len_expr
            parts = None if a.parts is None or b.parts is None else a.parts + b.parts
            return ZSeq(z3.Concat(a.t, b.t), self.kind, ln, parts)
        raise Undecided("sequence operator " + type(op).__name__)

    def sym_compare(self, ctx, op, other, reflected):
        if isinstance(op, (ast.Eq, ast.NotEq)):
            r = self.sym_eq(other)
            return r if isinstance(op, ast.Eq) else lnot(r)
        return NotImplemented

    def sym_from_bytes(self, ctx, order):
        if order != "big":
            raise Undecided("little-endian value of a symbolic-length byte string")
        sink().add(be(self.t) >= 0)
        return be(self.t)

    def sym_hash(self, ctx, alg):
        return ZSeq(hash_fn(alg)(self.t), "bytes")

    def sym_getattr(self, ctx, name):
        if name in ("startswith", "endswith"):
            def f(other, *rest):
                if rest:
                    raise Undecided(name + " with start/end")
                if isinstance(simplify_native(other), tuple):
                    alts = [f(x) for x in other]
                    return L.lor(*alts) if alts else False
                o = coerce(other, self.kind)
                if o is None or o.kind != self.kind:
                    if L.family(other) in ("bytes", "str") and L.family(other) != ("bytes" if self.kind == "bytes" else "str"):
                        raise PyRaise(TypeError, name)
                    raise Undecided(name + " with an argument of unknown representation")
                return z3.PrefixOf(o.t, self.t) if name == "startswith" else z3.SuffixOf(o.t, self.t)
            return f
        h = ctx.opts.get("zseq_attr")
        if h is not None:
            r = h(ctx, self, name)
            if r is not None:
                return r
        raise Undecided(f"{self.kind}.{name} on a symbolic-length value")

    def __repr__(self):
        return f"ZSeq[{self.kind}]({self.t})"


class ZChar(SymVal):
    """one character of a symbolic string (its code)"""
    def __init__(self, code):
        self.code = code

    def sym_eq(self, other):
        if type(self.code).__name__ == "LB":
            if isinstance(other, str):
                return self.code.sym_eq(ord(other)) if len(other) == 1 else False
            if isinstance(other, ZChar):
                return self.code.sym_eq(other.code)
            return L.unlike("str", other)
        if isinstance(other, str):
            if len(other) != 1:
                return False
            return self.code == ord(other)
        if isinstance(other, ZChar):
            return self.code == other.code
        return L.unlike("str", other)

    def sym_compare(self, ctx, op, other, reflected):
        if isinstance(op, (ast.Eq, ast.NotEq)):
            r = self.sym_eq(other)
            return r if isinstance(op, ast.Eq) else lnot(r)
        return NotImplemented

    def sym_in_str(self, ctx, container):
        """c in "ALPHABET"  -> table abstraction (interpreted disjunction for bit-vector codes)"""
        if type(self.code).__name__ == "LB":
            if self.code.origin is not None and self.code.origin[0] == container:
                return True             # table[i] in table
            return z3.Or(*[self.code.v == ord(ch) for ch in container]) if container else False
        tab = Table.of(container)
        return tab.IN(self.code)

    def sym_in(self, ctx, container):
        if isinstance(container, str):
            return self.sym_in_str(ctx, container)
        return lor(*[self.sym_eq(x) for x in container])

    def sym_type(self):
        return str

    def sym_binop(self, ctx, op, other, reflected):
        if isinstance(op, ast.Add):
            me = ZSeq(z3.Unit(self.code), "str")
            return me.sym_binop(ctx, op, other, reflected)
        raise Undecided("char operator")


def coerce(x, kind):
    x = simplify_native(x)
    if isinstance(x, ZSeq):
        return x            # (callers compare .kind: a str sequence never equals / concatenates with a bytes one)
    if isinstance(x, ZChar):
        return ZSeq(z3.Unit(x.code), "str")
    if isinstance(x, str) and kind == "str":
        return ZSeq.of(x)
    if isinstance(x, (bytes, bytearray)) and kind == "bytes":
        return ZSeq.of(bytes(x))
    if isinstance(x, Rope) and kind == "bytes":
        if x.is_concrete():
            return ZSeq.of(x.native())
        return ZSeq(z3.Concat(*[z3.Unit(L.toint(b)) for b in x.bytes_list()]) if len(x) > 1 else z3.Unit(L.toint(x[0])), "bytes",
                    len(x), [("rope", x)])
    return None


# ------------------------------------------------------------------ uninterpreted spec functions on sequences
be = z3.Function("BE", ISeq, z3.IntSort())                 # big-endian value of a byte sequence
_hash = {}


def hash_fn(alg):
    if alg not in _hash:
        _hash[alg] = z3.Function(f"{alg}_seq", ISeq, ISeq)
    return _hash[alg]


class Table:
    """constant alphabet as a table abstraction: IN(code), IDX(code), CH(index) uninterpreted, with the
    point-wise facts of the REAL constant established by enumeration (one fact per entry)"""
    _cache = {}

    def __init__(self, alphabet):
        self.alphabet = alphabet
        tag = str(__import__("zlib").crc32(repr(alphabet).encode()))
        self.INf = z3.Function("IN_" + tag, z3.IntSort(), z3.BoolSort())
        self.IDXf = z3.Function("IDX_" + tag, z3.IntSort(), z3.IntSort())
        self.CHf = z3.Function("CH_" + tag, z3.IntSort(), z3.IntSort())
        self.n = len(alphabet)
        facts = []
        for i, ch in enumerate(alphabet):
            if alphabet.index(ch) == i:
                facts.append(self.IDXf(ord(ch)) == i)
            facts.append(self.CHf(i) == ord(ch))
        self.ground = facts

    @staticmethod
    def of(alphabet):
        if alphabet not in Table._cache:
            Table._cache[alphabet] = Table(alphabet)
        return Table._cache[alphabet]

    def _axioms(self, code):
        """facts about ONE code term (instantiated where used)"""
        S = sink()
        c = L.toint(code)
        S.add(self.INf(c) == z3.Or(*[c == ord(ch) for ch in self.alphabet]))
        S.add(z3.Implies(self.INf(c), z3.And(self.IDXf(c) >= 0, self.IDXf(c) < self.n, self.CHf(self.IDXf(c)) == c)))

    def IN(self, code):
        self._axioms(code)
        return self.INf(L.toint(code))

    def IDX(self, code):
        self._axioms(code)
        return self.IDXf(L.toint(code))

    def CH(self, idx):
        i = L.toint(idx)
        S = sink()
        S.add(z3.Implies(z3.And(i >= 0, i < self.n), z3.And(self.INf(self.CHf(i)), self.IDXf(self.CHf(i)) == i,
                                                           z3.Or(*[self.CHf(i) == ord(ch) for ch in self.alphabet]))))
        for k, ch in enumerate(self.alphabet):
            if k < 2:
                S.add(z3.Implies(i == k, self.CHf(i) == ord(ch)))
        return self.CHf(i)


def _ceq(a, b):
    """equality of character codes (ints, z3 Ints or low-bits values)"""
    for x, y in ((a, b), (b, a)):
        if type(x).__name__ == "LB":
            return x.sym_eq(y)
    return eq(a, b)


def _shift_case(c, lo, hi, delta):
    """ASCII case mapping of one code (S2: str.lower/upper act on A-Z / a-z only, for codes 33..126)"""
    if isinstance(c, int):
        return c + delta if lo <= c <= hi else c
    if type(c).__name__ == "LB":
        from .lowbits import LB
        if c.origin is not None and not any(lo <= ord(ch) <= hi for ch in c.origin[0]):
            return c                    # no character of the table is affected by this case mapping
        v = c.v
        return LB(z3.If(z3.And(z3.UGE(v, lo), z3.ULE(v, hi)), v + delta, v), True, 32)
    return z3.If(z3.And(c >= lo, c <= hi), c + delta, c)


class CStr(SymVal):
    """a string of CONCRETE length whose characters are symbolic codes (python ints or z3 Ints)"""
    def __init__(self, codes):
        self.codes = list(codes)

    @staticmethod
    def of(text):
        return CStr([ord(c) for c in text])

    def sym_type(self):
        return str

    def sym_len(self, ctx=None):
        return len(self.codes)

    def sym_truthy(self, ctx):
        return len(self.codes) > 0

    def sym_iter(self, ctx):
        return [ZChar(c) for c in self.codes]

    def native(self):
        if all(isinstance(c, int) for c in self.codes):
            return "".join(chr(c) for c in self.codes)
        return None

    def sym_eq(self, other):
        o = other
        if isinstance(o, str):
            o = CStr.of(o)
        if not isinstance(o, CStr):
            return L.unlike("str", other)
        if len(o.codes) != len(self.codes):
            return False
        return land(*[_ceq(a, b) for a, b in zip(self.codes, o.codes)])

    def sym_compare(self, ctx, op, other, reflected):
        if isinstance(op, (ast.Eq, ast.NotEq)):
            r = self.sym_eq(other)
            return r if isinstance(op, ast.Eq) else lnot(r)
        return NotImplemented

    def sym_subscript(self, ctx, idx):
        if isinstance(idx, slice):
            a, b = simplify_native(idx.start), simplify_native(idx.stop)
            if is_sym(a) or is_sym(b):
                raise Undecided("symbolic slice of a concrete-length string")
            return CStr(self.codes[slice(a, b)])
        idx = simplify_native(idx)
        if is_sym(idx):
            raise Undecided("symbolic index into a concrete-length string")
        try:
            return ZChar(self.codes[idx])
        except IndexError:
            raise PyRaise(IndexError)

    def sym_binop(self, ctx, op, other, reflected):
        if isinstance(op, ast.Add):
            o = other
            if isinstance(o, str):
                o = CStr.of(o)
            elif isinstance(o, ZChar):
                o = CStr([o.code])
            if not isinstance(o, CStr):
                raise Undecided("concatenation with " + type(other).__name__)
            return CStr(o.codes + self.codes) if reflected else CStr(self.codes + o.codes)
        raise Undecided("string operator")

    def _ascii_only(self, ctx, what):
        """str.lower / str.upper are modelled for ASCII text only (S2).  Outside ASCII the real methods map some
        characters INTO the ASCII letters (U+212A KELVIN SIGN -> 'k', U+017F -> 'S') and may change the length
        (U+0130, U+00DF): a path on which a character may be >= 128 is outside the model."""
        for c in self.codes:
            if isinstance(c, int):
                non = c >= 128
            elif type(c).__name__ == "LB":
                if c.origin is not None and all(ord(ch) < 128 for ch in c.origin[0]):
                    continue
                if not c.exact:
                    raise Undecided(f"str.{what} on a character that is not known to be a code point")
                non = z3.UGE(c.v, 128)
            else:
                non = c >= 128
            if ctx.branch(non):
                raise Undecided(f"str.{what} on text that may contain non-ASCII characters (case mapping outside ASCII is not modelled)")

    def sym_getattr(self, ctx, name):
        if name == "lower":
            def lower():
                self._ascii_only(ctx, "lower")
                return CStr([_shift_case(c, 65, 90, 32) for c in self.codes])
            return lower
        if name == "upper":
            def upper():
                self._ascii_only(ctx, "upper")
                return CStr([_shift_case(c, 97, 122, -32) for c in self.codes])
            return upper
        if name == "rfind":
            def rfind(sub, *rest):
                if rest or not isinstance(sub, str) or len(sub) != 1:
                    raise Undecided("rfind variant")
                for p in range(len(self.codes) - 1, -1, -1):
                    if ctx.branch(_ceq(self.codes[p], ord(sub))):
                        return p
                return -1
            return rfind
        if name == "find":
            def find(sub, *rest):
                if rest or not isinstance(sub, str) or len(sub) != 1:
                    raise Undecided("find variant")
                for p in range(len(self.codes)):
                    if ctx.branch(_ceq(self.codes[p], ord(sub))):
                        return p
                return -1
            return find
        raise Undecided("str." + name + " on a symbolic string")

    def materialize(self):
        return self.native()

    def __repr__(self):
        return f"CStr({len(self.codes)})"
