"""A byte stream of symbolic size (io.BytesIO read semantics) and the chunks read from it."""
import ast
import z3
from . import logic as L
from .logic import SymVal, is_sym, land, lor, lnot, eq, sink, simplify_native
from .engine import Undecided, PyRaise, BoundMeth
import io


class SymChunk(SymVal):
    """bytes read from a symbolic stream: length (int or term) and unknown content.
    value(i): the i-th byte as a fresh constant (cached); le(): little-endian value as a fresh constant."""
    _n = 0

    def __init__(self, length, origin, start=None, stream=None):
        self.length = simplify_native(length)
        self.origin = origin
        self.start = start          # position in `stream` where the chunk begins (None: unknown provenance)
        self.stream = stream
        SymChunk._n += 1
        self.uid = f"{origin}!{sink().counter}"
        sink().counter += 1
        self._bytes = {}
        self._le = None

    def sym_len(self, ctx=None):
        return self.length

    def sym_type(self):
        return bytes

    def sym_truthy(self, ctx):
        return self.length > 0 if is_sym(self.length) else self.length > 0

    def sym_subscript(self, ctx, idx):
        if isinstance(idx, slice):
            raise Undecided("slice of a stream chunk")
        idx = simplify_native(idx)
        if is_sym(idx) or idx < 0:
            raise Undecided("chunk index")
        if not ctx.branch(self.length > idx if is_sym(self.length) else self.length > idx):
            raise PyRaise(IndexError)
        if idx not in self._bytes:
            if self.stream is not None:
                b = self.stream.byte_at(self.start + idx)
            else:
                b = z3.Int(f"{self.uid}.byte{idx}")
                sink().add(z3.And(b >= 0, b <= 255))
            self._bytes[idx] = b
        return self._bytes[idx]

    def sym_from_bytes(self, ctx, order):
        if self.stream is not None and not is_sym(self.length) and self.length <= 8:
            # the integer IS the positional value of the stream bytes it was read from
            n = self.length
            v = 0
            for i in range(n):
                w = i if order == "little" else n - 1 - i
                v = v + self.stream.byte_at(self.start + i) * 256 ** w
            return simplify_native(v)
        if self._le is None:
            v = z3.Int(f"{self.uid}.{order}")
            n = self.length
            if is_sym(n):
                # value bounded by 256^len, tabulated for lengths 0..8; a longer chunk is outside the model
                if ctx.branch(n > 8):
                    raise Undecided("integer value of a stream chunk that may be longer than 8 bytes")
                bound = z3.IntVal(1)
                for k in range(1, 9):
                    bound = z3.If(n >= k, 256 ** k, bound)
                sink().add(z3.And(v >= 0, v < bound))
            else:
                sink().add(z3.And(v >= 0, v < 256 ** n))
                if n == 1 and 0 in self._bytes:
                    sink().add(v == self._bytes[0])
            self._le = (order, v)
        if self._le[0] != order and not (not is_sym(self.length) and self.length <= 1):
            raise Undecided("chunk read in both byte orders")
        return self._le[1]

    def sym_eq(self, other):
        if other is self:
            return True
        o = simplify_native(other)
        if isinstance(o, SymChunk) and self.stream is not None and o.stream is self.stream:
            # two chunks of the same stream: equal ranges are equal bytes; different ranges may or may not be
            same = land(eq(self.start, o.start), eq(self.length, o.length))
            if same is True:
                return True
        if isinstance(o, (bytes, bytearray)) or type(o).__name__ in ("Rope", "OBytes", "SymChunk", "ZSeq"):
            # unknown content against other bytes: lengths decide only inequality
            raise Undecided("equality of stream bytes with other bytes")
        return False                    # bytes never equal a value of another type

    def __repr__(self):
        return f"SymChunk({self.origin}, len={self.length})"


class SymStream(SymVal):
    """io.BytesIO over unknown content of symbolic size `size`, at position `pos`"""
    def __init__(self, size, pos=0, name="s"):
        self.size, self.pos, self.name = size, pos, name
        self.reads = 0
        self.content = z3.Function(f"{name}!content", z3.IntSort(), z3.IntSort())       # byte at each position

    def byte_at(self, pos):
        b = self.content(L.toint(pos) if hasattr(L, "toint") else pos)
        sink().add(z3.And(b >= 0, b <= 255))
        return b

    def sym_type(self):
        return io.BytesIO

    def sym_getattr(self, ctx, name):
        if name == "read":
            def read(n=-1):
                n = simplify_native(n)
                self.reads += 1
                avail = self.size - self.pos
                if n is None or (not is_sym(n) and n < 0):
                    ch = SymChunk(avail, f"{self.name}.read{self.reads}", self.pos, self)
                    self.pos = self.size
                    return ch
                if is_sym(n) and ctx.branch(n < 0):
                    ch = SymChunk(avail, f"{self.name}.read{self.reads}", self.pos, self)
                    self.pos = self.size
                    return ch
                if ctx.branch(avail >= n):
                    ch = SymChunk(n, f"{self.name}.read{self.reads}", self.pos, self)
                    self.pos = self.pos + n
                else:
                    ch = SymChunk(avail, f"{self.name}.read{self.reads}", self.pos, self)       # short read
                    self.pos = self.size
                return ch
            return read
        if name == "tell":
            return lambda: self.pos
        raise Undecided("stream." + name)
