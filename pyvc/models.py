"""Models (assumed contracts, DESIGN §2.8) of the builtins and library functions the repository
calls with symbolic arguments.  Every model is listed in the evidence under `assumptions`."""
import ast
import base64
import hashlib
import hmac
import io
import json
import re
import types
import unicodedata
import z3
import ecdsa

from . import logic as L
from . import prims as U
from .logic import Rope, as_rope, is_sym, land, lor, lnot, implies, eq, simplify_native, to_be
from .engine import (Ctx, Ref, HObj, HList, HDict, HBytesIO, ModelObj, TrueDiv, Opaque, SStr, Dec, OStr,
                     PyRaise, Undecided, ATTR_MODELS, contains_sym, iterate, to_str, mk_str,
                     str_format, nativize, BoundMeth, HexStr, as_sstr)
from . import engine as E

NATIVE_MODELS = {}
USED = set()
FORCE_MODELS = False        # tools/xcheck.py --models: use the assumed library contracts on concrete arguments too


def native_key(f):
    s = getattr(f, "__self__", None)
    if isinstance(f, (types.BuiltinMethodType, types.MethodType)) and s is not None \
            and not isinstance(s, types.ModuleType):
        if isinstance(s, type):
            return (s, f.__name__)
        return (type(s), f.__name__, "inst")
    try:
        hash(f)
        return f
    except TypeError:
        return id(f)


def nmodel(*keys):
    def deco(fn):
        for k in keys:
            NATIVE_MODELS[k] = fn
        return fn
    return deco


_orig_call_native = Ctx.call_native


def call_native(self, f, args, kwargs):
    k = native_key(f)
    m = NATIVE_MODELS.get(k)
    anysym = any(contains_sym(a) for a in args) or any(contains_sym(a) for a in kwargs.values())
    if m is not None and (anysym or getattr(m, "always", False) or FORCE_MODELS):
        USED.add(getattr(m, "__name__", str(k)))
        if isinstance(k, tuple) and len(k) == 3:
            return m(self, f.__self__, list(args), dict(kwargs))
        return m(self, list(args), dict(kwargs))
    return _orig_call_native(self, f, args, kwargs)


Ctx.call_native = call_native


# ------------------------------------------------------------------ builtins
@nmodel(len)
def m_len(ctx, args, kw):
    v = simplify_native(args[0])
    if isinstance(v, Rope):
        return len(v)
    if isinstance(v, Ref):
        o = ctx.deref(v)
        if isinstance(o, HList):
            if o.base is not None:
                raise Undecided("len of symbolic list")
            return len(o.items)
        if isinstance(o, HDict):
            return len(o.d)
    if hasattr(v, "sym_len"):
        return v.sym_len(ctx)
    if isinstance(v, SStr):
        raise Undecided("len of structured string")
    if isinstance(v, HexStr):
        return 2 * len(v.rope)
    raise Undecided(f"len of {type(v).__name__}")


def _cls_of(ctx, v):
    v = simplify_native(v)
    if isinstance(v, Ref):
        o = ctx.deref(v)
        if isinstance(o, HObj):
            return o.cls
        if isinstance(o, HList):
            return list
        if isinstance(o, HDict):
            return dict
        if isinstance(o, HBytesIO):
            return io.BytesIO
    if isinstance(v, Rope):
        return bytes
    if isinstance(v, (SStr, HexStr)):
        return str
    if is_sym(v):
        if z3.is_bool(v):
            return bool
        if z3.is_int(v):
            return int
    if hasattr(v, "sym_type"):
        return v.sym_type()
    if isinstance(v, ModelObj) and v.kind == "exception":
        return v.f["cls"]               # type(err) of a caught exception
    if isinstance(v, (ModelObj, Opaque, TrueDiv)) or isinstance(v, L.SymVal):
        raise Undecided("type of model object " + type(v).__name__)
    return type(v)


@nmodel(isinstance)
def m_isinstance(ctx, args, kw):
    c = _cls_of(ctx, args[0])
    t = args[1]
    return issubclass(c, t)


@nmodel(type)
def m_type(ctx, args, kw):
    if len(args) != 1:
        raise Undecided("type() with 3 args")
    return _cls_of(ctx, args[0])


@nmodel(bytes)
def m_bytes(ctx, args, kw):
    v = simplify_native(args[0])
    if isinstance(v, Rope):
        return v
    if isinstance(v, Ref):
        o = ctx.deref(v)
        if isinstance(o, HObj):
            for k in o.cls.__mro__:
                if "__bytes__" in vars(k):
                    return ctx.call_value(vars(k)["__bytes__"], [v], {})
            raise PyRaise(TypeError, "cannot convert to bytes")
        if isinstance(o, HList):
            if o.base is not None:
                raise Undecided("bytes of symbolic list")
            segs = []
            for x in o.items:
                x = simplify_native(x)
                if is_sym(x):
                    if not ctx.branch(land(x >= 0, x < 256)):
                        raise PyRaise(ValueError, "bytes must be in range(0, 256)")
                elif not 0 <= x < 256:
                    raise PyRaise(ValueError, "bytes must be in range(0, 256)")
                segs.append((x, 1, False))
            return simplify_native(Rope(segs))
    if isinstance(v, (tuple, list)) and len(args) == 1 and not kw:
        segs = []
        for x in v:
            x = simplify_native(x)
            if type(x).__name__ == "LB":
                x = x.as_int()
            if isinstance(x, bool) or not (isinstance(x, int) or (is_sym(x) and z3.is_int(x))):
                raise Undecided("bytes() of a sequence with non-integer items")
            if is_sym(x):
                if not ctx.branch(land(x >= 0, x < 256)):
                    raise PyRaise(ValueError, "bytes must be in range(0, 256)")
            elif not 0 <= x < 256:
                raise PyRaise(ValueError, "bytes must be in range(0, 256)")
            segs.append((x, 1, False))
        return simplify_native(Rope(segs))
    if v is None:
        raise PyRaise(TypeError, "cannot convert 'NoneType' object to bytes")
    if hasattr(v, "sym_bytes"):
        return v.sym_bytes(ctx)
    raise Undecided(f"bytes() of {type(v).__name__}")


@nmodel(int)
def m_int(ctx, args, kw):
    v = simplify_native(args[0])
    if isinstance(v, TrueDiv):
        # int(a / b): accepted under the side condition 0 <= a < 2^53, b > 0 (float division exact
        # enough that truncation equals floor division); otherwise undecided
        a, b = v.a, v.b
        cond = land(a >= 0, a < 2 ** 53, b > 0)
        ctx._sync_facts()
        s = ctx.solver
        s.push()
        s.add(z3.Not(L.tobool(cond)))
        r = s.check()
        s.pop()
        if r != z3.unsat:
            raise Undecided("int(a / b) outside the float-exact range")
        if is_sym(b):
            raise Undecided("true division by symbolic")
        return L.fdiv(a, b)
    if (len(args) > 1 or kw) and (is_sym(v) or isinstance(v, (int, bool))):
        raise PyRaise(TypeError, "int() can't convert non-string with explicit base")
    if is_sym(v) and z3.is_int(v):
        return v
    if is_sym(v) and z3.is_bool(v):
        return z3.If(v, 1, 0)
    if hasattr(v, "sym_int"):
        return v.sym_int(ctx, *args[1:])
    if isinstance(v, SStr):
        if len(args) > 1:
            raise Undecided("int(str, base) on structured string")
        if len(v.parts) == 1 and isinstance(v.parts[0], Dec):
            return v.parts[0].n
        raise Undecided(f"int() of structured string {v}")
    if isinstance(v, Ref):
        o = ctx.deref(v)
        if isinstance(o, HObj):
            for k in o.cls.__mro__:
                if "__int__" in vars(k):
                    return ctx.call_value(vars(k)["__int__"], [v], {})
    raise Undecided(f"int() of {type(v).__name__}")


@nmodel(str)
def m_str(ctx, args, kw):
    return to_str(ctx, args[0])


@nmodel(bool)
def m_bool(ctx, args, kw):
    return ctx.truthy(args[0])


@nmodel(list)
def m_list(ctx, args, kw):
    return ctx.new_list(iterate(ctx, args[0]) if args else [])


m_list.always = True


@nmodel(tuple)
def m_tuple(ctx, args, kw):
    return tuple(iterate(ctx, args[0]))


@nmodel(divmod)
def m_divmod(ctx, args, kw):
    a, b = args
    if is_sym(b):
        raise Undecided("divmod by symbolic")
    if b <= 0:
        raise Undecided("divmod by non-positive")
    return (L.fdiv(a, b), L.fmod(a, b))


@nmodel(range)
def m_range(ctx, args, kw):
    args = [simplify_native(a) for a in args]
    if all(isinstance(a, int) for a in args):
        return range(*args)
    return SymRange(*args)


class SymRange(L.SymVal):
    def __init__(self, *a):
        if len(a) == 1:
            self.start, self.stop = 0, a[0]
        elif len(a) == 2:
            self.start, self.stop = a
        else:
            raise Undecided("range with step")

    def sym_iter(self, ctx):
        if not is_sym(self.start) and not is_sym(self.stop):
            return list(range(self.start, self.stop))
        h = ctx.opts.get("range_iter")
        if h is not None:
            r = h(ctx, self)
            if r is not None:
                return r
        raise Undecided("iteration over a symbolic range")


def _anyall(is_any):
    def m(ctx, args, kw):
        items = [ctx.truthy(x) for x in iterate(ctx, args[0])]
        return lor(*items) if is_any else land(*items)
    m.always = False
    return m


NATIVE_MODELS[any] = _anyall(True)
NATIVE_MODELS[all] = _anyall(False)


@nmodel(ord)
def m_ord(ctx, args, kw):
    x = args[0]
    if type(x).__name__ == "ZChar":
        return x.code           # a z3 Int, or a low-bits value when the string is modelled over bit-vectors
    raise Undecided("ord() of symbolic")


@nmodel(io.BytesIO)
def m_bytesio(ctx, args, kw):
    v = simplify_native(args[0]) if args else b""
    return ctx.alloc(HBytesIO(as_rope(v)))


m_bytesio.always = True


@nmodel((int, "from_bytes"))
def m_from_bytes(ctx, args, kw):
    b = simplify_native(args[0])
    order = args[1] if len(args) > 1 else kw.get("byteorder", "big")
    if order not in ("big", "little"):
        if isinstance(order, str):
            raise PyRaise(ValueError, "byteorder must be either 'little' or 'big'")
        raise Undecided("from_bytes byteorder")
    if len(args) > 2 or set(kw) - {"byteorder", "signed"}:
        raise Undecided("from_bytes with unmodelled arguments")
    if hasattr(b, "sym_from_bytes"):
        if kw.get("signed"):
            raise Undecided("signed from_bytes")
        return b.sym_from_bytes(ctx, order)
    r = as_rope(b)
    v = r.be() if order == "big" else r.le()
    if kw.get("signed") and len(r):
        n = len(r)
        v = simplify_native(L.ite(v >= 2 ** (8 * n - 1), v - 2 ** (8 * n), v))
    return v


@nmodel((bytes, "fromhex"))
def m_fromhex(ctx, args, kw):
    v = args[0]
    if isinstance(v, HexStr) and type(v) is HexStr:
        return v.rope
    if hasattr(v, "sym_fromhex"):
        return v.sym_fromhex(ctx)
    raise Undecided("bytes.fromhex of symbolic string")


@nmodel((str, "format", "inst"))
def m_format(ctx, selfv, args, kw):
    return str_format(ctx, selfv, args, kw)


@nmodel((str, "join", "inst"))
def m_join(ctx, selfv, args, kw):
    v = args[0]
    if hasattr(v, "sym_join"):
        return v.sym_join(ctx, selfv)
    items = iterate(ctx, v)
    parts = []
    for i, x in enumerate(items):
        if i:
            parts.append(selfv)
        x = simplify_native(x)
        if all(type(simplify_native(y)).__name__ == "ZChar" for y in items) and selfv == "":
            from . import seqs as Q
            return Q.CStr([y.code for y in items])
        if type(x).__name__ in ("ZChar", "ZSeq"):
            from . import seqs as Q
            acc = None
            for j, y in enumerate(items):
                z = Q.coerce(y, "str")
                if z is None:
                    raise PyRaise(TypeError, "sequence item: expected str")
                if j and selfv:
                    acc = Q.ZSeq(z3.Concat(acc.t, Q.lit(selfv)), "str")
                acc = z if acc is None else Q.ZSeq(z3.Concat(acc.t, z.t), "str")
            return acc
        if not isinstance(x, (str, SStr)):
            if hasattr(x, "sym_as_str_part"):
                parts.append(x.sym_as_str_part())
                continue
            raise PyRaise(TypeError, "sequence item: expected str")
        parts.append(x)
    return mk_str(parts)


@nmodel((bytes, "join", "inst"))
def m_bjoin(ctx, selfv, args, kw):
    items = iterate(ctx, args[0])
    r = Rope()
    for i, x in enumerate(items):
        if i:
            r = r + as_rope(selfv)
        r = r + as_rope(simplify_native(x))
    return simplify_native(r)


@nmodel(hex)
def m_hex(ctx, args, kw):
    v = args[0]
    if hasattr(v, "sym_hex"):
        return v.sym_hex(ctx)
    raise Undecided("hex() of symbolic")


@nmodel(bin)
def m_bin(ctx, args, kw):
    h = ctx.opts.get("bin_model")
    if h is not None:
        return h(ctx, args[0])
    raise Undecided("bin() of symbolic")


# ------------------------------------------------------------------ hashlib / hmac / pbkdf2 / unicode
def _hash_ctor(alg):
    def m(ctx, args, kw):
        data = args[0] if args else kw.get("data", kw.get("string", b""))
        return ModelObj("hash", alg=alg, data=data)
    m.__name__ = "hashlib." + alg
    return m


nmodel(hashlib.sha256)(_hash_ctor("sha256"))
nmodel(hashlib.sha512)(_hash_ctor("sha512"))


def _hash_digest(ctx, o):
    def digest():
        d = simplify_native(o.f["data"])
        if hasattr(d, "sym_hash"):
            return d.sym_hash(ctx, o.f["alg"])
        if o.f["alg"] == "sha256":
            return U.sha256(d)
        if o.f["alg"] == "sha512":
            return U.sha512(d)
        raise Undecided("hash alg")
    return digest


ATTR_MODELS["hash"] = {"digest": _hash_digest}


@nmodel(hmac.new)
def m_hmac_new(ctx, args, kw):
    key = args[0] if args else kw["key"]
    msg = args[1] if len(args) > 1 else kw.get("msg")
    dm = args[2] if len(args) > 2 else kw.get("digestmod")
    return ModelObj("hmac", key=key, msg=msg, dm=dm)


def _hmac_digest(ctx, o):
    def digest():
        dm = o.f["dm"]
        if dm is hashlib.sha512 or dm == "sha512":
            return U.hmac512(simplify_native(o.f["key"]), simplify_native(o.f["msg"]))
        raise Undecided("hmac with a digest other than sha512")
    return digest


ATTR_MODELS["hmac"] = {"digest": _hmac_digest}


# ------------------------------------------------------------------ ecdsa (E1-E4, E6)
MPE = ecdsa.keys.MalformedPointError


@nmodel((ecdsa.SigningKey, "from_string"))
def m_sk_from_string(ctx, args, kw):
    b = simplify_native(args[0] if args else kw["string"])
    curve = kw.get("curve", args[1] if len(args) > 1 else None)
    if curve is not ecdsa.SECP256k1:
        raise Undecided("curve other than SECP256k1")
    if set(kw) - {"string", "curve", "hashfunc"}:
        raise Undecided("SigningKey.from_string with unmodelled arguments")
    if hasattr(b, "sym_len") and not isinstance(b, Rope):
        raise Undecided("SigningKey.from_string on symbolic-length bytes")
    if not isinstance(b, (Rope, bytes)):
        raise PyRaise(TypeError, "from_string needs bytes")
    r = as_rope(b)
    if len(r) != 32:
        raise PyRaise(MPE, "invalid length of private key")
    k = r.be()
    if not ctx.branch(land(k >= 1, k < U.N)):
        raise PyRaise(MPE, "secret exponent out of range")
    return ModelObj("SigningKey", k=k)


@nmodel((ecdsa.SigningKey, "from_secret_exponent"))
def m_sk_from_secexp(ctx, args, kw):
    k = simplify_native(args[0] if args else kw["secexp"])
    curve = kw.get("curve", args[1] if len(args) > 1 else None)
    if curve is not ecdsa.SECP256k1:
        raise Undecided("curve other than SECP256k1")
    if set(kw) - {"secexp", "curve", "hashfunc"}:
        raise Undecided("SigningKey.from_secret_exponent with unmodelled arguments")
    if isinstance(k, bool) or not (isinstance(k, int) or (is_sym(k) and z3.is_int(k))):
        raise Undecided("from_secret_exponent of a non-integer")
    if not ctx.branch(land(k >= 1, k < U.N) if is_sym(k) else (1 <= k < U.N)):
        raise PyRaise(MPE, "secret exponent out of range")
    return ModelObj("SigningKey", k=k)


ATTR_MODELS["SigningKey"] = {
    "get_verifying_key": lambda ctx, o: (lambda: ModelObj("VerifyingKey", pt=U.ecmul(o.f["k"]))),
    "to_string": lambda ctx, o: (lambda: simplify_native(to_be(o.f["k"], 32))),
    "verifying_key": lambda ctx, o: ModelObj("VerifyingKey", pt=U.ecmul(o.f["k"])),
}


def _vk_to_string(ctx, o):
    def to_string(encoding="raw"):
        if encoding == "compressed":
            return simplify_native(U.sec(o.f["pt"], True))
        if encoding == "uncompressed":
            return simplify_native(U.sec(o.f["pt"], False))
        raise Undecided("VerifyingKey.to_string encoding " + str(encoding))
    return to_string


ATTR_MODELS["VerifyingKey"] = {
    "to_string": _vk_to_string,
    "pubkey": lambda ctx, o: ModelObj("Public_key", pt=o.f["pt"]),
}
ATTR_MODELS["Public_key"] = {"point": lambda ctx, o: o.f["pt"]}


@nmodel((ecdsa.VerifyingKey, "from_string"))
def m_vk_from_string(ctx, args, kw):
    b = simplify_native(args[0] if args else kw["string"])
    curve = kw.get("curve", args[1] if len(args) > 1 else None)
    if curve is not ecdsa.SECP256k1:
        raise Undecided("curve other than SECP256k1")
    if not isinstance(b, (Rope, bytes)):
        if hasattr(b, "sym_len"):
            raise Undecided("VerifyingKey.from_string on symbolic-length bytes")
        raise PyRaise(TypeError, "from_string needs bytes")
    extra = set(kw) - {"string", "curve", "validate_point", "hashfunc", "valid_encodings"}
    if extra or kw.get("valid_encodings") is not None:
        raise Undecided(f"VerifyingKey.from_string with unmodelled arguments {sorted(extra)}")
    ok, pt = U.sec_parse(b)
    vp = kw.get("validate_point", True)
    if vp is not True and len(as_rope(b)) in (64, 65) and not as_rope(b).is_concrete():
        # E4': without point validation raw / uncompressed / hybrid encodings are accepted whenever they are
        # structurally well-formed, on the curve or not
        r = as_rope(b)
        struct = True if len(r) == 64 else lor(r[0] == 4, r[0] == 6, r[0] == 7)
        if not ctx.branch(struct):
            raise PyRaise(MPE, "not a valid point encoding")
        return ModelObj("VerifyingKey", pt=pt)
    if not ctx.branch(ok):
        raise PyRaise(MPE, "not a valid point encoding")
    return ModelObj("VerifyingKey", pt=pt)


m_vk_from_string.always = True


@nmodel((ecdsa.VerifyingKey, "from_public_point"))
def m_vk_from_point(ctx, args, kw):
    pt = args[0] if args else kw["point"]
    if not isinstance(pt, U.SymPt):
        pt = U.SymPt(pt)
    return ModelObj("VerifyingKey", pt=pt)


m_vk_from_point.always = True


def _pt_binop(self, ctx, op, other, reflected):
    if isinstance(op, ast.Add):
        o = other if isinstance(other, U.SymPt) else U.SymPt(other)
        return U.ptadd(o, self) if reflected else U.ptadd(self, o)
    raise Undecided("point operation")


def _pt_compare(self, ctx, op, other, reflected):
    if isinstance(op, (ast.Eq, ast.NotEq)):
        o = other if isinstance(other, U.SymPt) else U.SymPt(other)
        r = self.sym_eq(o)
        return r if isinstance(op, ast.Eq) else lnot(r)
    return NotImplemented


U.SymPt.sym_binop = _pt_binop
U.SymPt.sym_compare = _pt_compare


# ------------------------------------------------------------------ json / base64 / misc
@nmodel(json.dumps)
def m_json_dumps(ctx, args, kw):
    return ModelObj("json", data=args[0], indent=kw.get("indent", None), kw=kw)


m_json_dumps.always = True


@nmodel(unicodedata.normalize)
def m_normalize(ctx, args, kw):
    if len(args) != 2 or kw:
        raise Undecided("normalize call shape")
    form, s = args[0], args[1]
    if not isinstance(form, str):
        raise Undecided("normalize form")
    if form not in ("NFC", "NFD", "NFKC", "NFKD"):
        raise PyRaise(ValueError, "invalid normalization form")
    f = z3.Function("normalize_" + form, E.PStr, E.PStr)
    return SStr([OStr(f(E.pstr_term(as_sstr(s))), "normalize_" + form)])


@nmodel(hashlib.pbkdf2_hmac)
def m_pbkdf2(ctx, args, kw):
    names = ["hash_name", "password", "salt", "iterations", "dklen"]
    a = dict(zip(names, args))
    a.update(kw)
    hn, rounds, dklen = a["hash_name"], simplify_native(a["iterations"]), a.get("dklen")
    if hn != "sha512":
        raise Undecided("pbkdf2 with hash " + str(hn))
    if is_sym(rounds):
        raise Undecided("symbolic pbkdf2 round count")
    if set(a) - set(names):
        raise Undecided("pbkdf2 with unmodelled arguments")
    dklen = simplify_native(dklen)
    if is_sym(dklen):
        raise Undecided("symbolic pbkdf2 output length")
    if isinstance(rounds, bool) or not isinstance(rounds, int) or (dklen is not None and (isinstance(dklen, bool) or not isinstance(dklen, int))):
        raise PyRaise(TypeError, "pbkdf2 arguments")
    if rounds < 1:
        raise PyRaise(ValueError, "iteration value must be greater than 0")
    if dklen is not None and dklen < 1:
        raise PyRaise(ValueError, "key length must be greater than 0")
    if dklen is None:
        dklen = 64
    return U.pbkdf2_sha512(simplify_native(a["password"]), simplify_native(a["salt"]), rounds, dklen)


class B64Str(L.SymVal):
    """base64.b64encode(rope) and its .decode()/.strip() (S9: the Base64 text of 64 bytes is 88
    alphabet characters without whitespace); only prefixes are understood"""
    def __init__(self, rope):
        self.rope = as_rope(rope)

    def sym_getattr(self, ctx, name):
        if name == "strip":
            def strip(*a, **k):
                if a or k:
                    raise Undecided("B64Str.strip with a character set")
                return self             # Base64 text contains no whitespace
            return strip
        if name == "decode":
            def decode(*a, **k):
                if k or (a and (len(a) > 1 or a[0] not in ("ascii", "utf-8", "utf8", "latin-1"))):
                    raise Undecided("B64Str.decode with unmodelled arguments")
                return self             # Base64 text is ASCII
            return decode
        raise Undecided("B64Str." + name)

    def sym_subscript(self, ctx, idx):
        if isinstance(idx, slice) and idx.start is None:
            n = simplify_native(idx.stop)
            f = z3.Function(f"b64prefix_{len(self.rope)}", z3.IntSort(), z3.IntSort(), E.PStr)
            return SStr([OStr(f(L.toint(self.rope.be()), L.toint(n)), "b64prefix")])
        raise Undecided("B64Str subscript")


@nmodel(base64.b64encode)
def m_b64encode(ctx, args, kw):
    return B64Str(simplify_native(args[0]))


class HexOf(L.SymVal):
    """hex text of opaque bytes (input side): bytes.fromhex(HexOf(b)) == b"""
    def __init__(self, ob):
        self.ob = ob

    def sym_fromhex(self, ctx):
        return self.ob

    def sym_type(self):
        return str


import weakref as _weakref


@nmodel(_weakref.ref)
def m_weakref(ctx, args, kw):
    return WeakRef(args[0])


m_weakref.always = True


class WeakRef(L.SymVal):
    """weakref.ref(obj): calling it yields the referent or None - the referent may have been collected
    whenever no strong reference is known to the engine, so both outcomes are explored"""
    def __init__(self, target):
        self.target = target
        self._n = 0

    def sym_call(self, ctx, args, kwargs):
        self._n += 1
        alive = z3.Bool(f"weakref_alive!{id(self) % 100000}!{ctx.sink.counter}")
        ctx.sink.counter += 1
        return self.target if ctx.branch(alive) else None

    def sym_is_none(self):
        return False

    def materialize(self):
        return _weakref.ref(self.target_real)


@nmodel((str, "index", "inst"))
def m_str_index(ctx, selfv, args, kw):
    from .seqs import ZChar, Table
    c = args[0]
    if len(args) > 1 or kw:
        raise Undecided("str.index with start / end")
    if isinstance(c, ZChar) and len(set(selfv)) == len(selfv):
        tab = Table.of(selfv)
        E._table_ground(ctx, tab)
        if not ctx.branch(tab.IN(c.code)):
            raise PyRaise(ValueError, "substring not found")
        return tab.IDX(c.code)
    raise Undecided("str.index with symbolic argument")


@nmodel((str, "find", "inst"))
def m_str_find(ctx, selfv, args, kw):
    from .seqs import ZChar, Table
    c = args[0]
    if len(args) > 1 or kw:
        raise Undecided("str.find with start / end")
    if isinstance(c, ZChar) and len(set(selfv)) == len(selfv):
        from .lowbits import LB
        if isinstance(c.code, LB) and c.code.origin is not None and c.code.origin[0] == selfv:
            return c.code.origin[1]     # table.find(table[i]) == i for a table of pairwise distinct characters
        if isinstance(c.code, LB):
            # bit-vector flavour: only under a path condition that already implies membership (the -1 case is excluded)
            member = z3.Or(*[c.code.v == ord(ch) for ch in selfv])
            if ctx.feasible(z3.Not(member)):
                raise Undecided("str.find on a character not known to be in the string")
            r = z3.BitVecVal(0, 32)
            for i, ch in enumerate(selfv):
                r = z3.If(c.code.v == ord(ch), z3.BitVecVal(i, 32), r)
            return LB(r, True, max(1, (len(selfv) - 1).bit_length()))
        tab = Table.of(selfv)
        E._table_ground(ctx, tab)
        return z3.If(tab.IN(c.code), tab.IDX(c.code), -1)
    raise Undecided("str.find with symbolic argument")


class HexNum(L.SymVal):
    """hex(n) for n >= 0; only the idiom  h = hex(n)[2:]; h = '0' + h if len(h) % 2 else h; bytes.fromhex(h)
    is understood (S-axioms HexStr): the result is the minimal big-endian byte string of n, b"\x00" for 0"""
    def __init__(self, n, stripped=False, padded=False):
        self.n, self.stripped, self.padded = n, stripped, padded

    def sym_subscript(self, ctx, idx):
        if isinstance(idx, slice) and idx.start == 2 and idx.stop is None and not self.stripped:
            if not ctx.branch(self.n >= 0):
                raise Undecided("hex() of a negative number")
            return HexNum(self.n, True, False)
        raise Undecided("HexNum subscript")

    def sym_len(self, ctx=None):
        if not self.stripped:
            raise Undecided("len(hex(n))")
        hl = hexlen(self.n)
        return hl + 1 if self.padded else hl

    def sym_binop(self, ctx, op, other, reflected):
        if isinstance(op, ast.Add) and reflected and other == "0" and self.stripped and not self.padded:
            return HexNum(self.n, True, True)
        raise Undecided("HexNum operator")

    def sym_fromhex(self, ctx):
        from .seqs import ZSeq
        if not self.stripped:
            raise PyRaise(ValueError, "non-hexadecimal number found")      # the '0x' prefix
        ln = self.sym_len()
        if not ctx.branch(ln % 2 == 0):
            raise PyRaise(ValueError, "odd-length hex string")
        return ZSeq(minbe(self.n), "bytes")

    def sym_type(self):
        return str


_hexlen = z3.Function("hexlen", z3.IntSort(), z3.IntSort())
_minbe = None


def hexlen(n):
    """number of hex digits of n >= 0 (1 for 0)"""
    t = _hexlen(L.toint(n))
    L.sink().add(t >= 1)
    return t


def minbe(n):
    """minimal big-endian bytes of n >= 0 (one zero byte for 0): bytes.fromhex of the even-padded hex digits"""
    from . import seqs
    global _minbe
    if _minbe is None:
        _minbe = z3.Function("minbe", z3.IntSort(), seqs.ISeq)
    n = L.toint(n)
    t = _minbe(n)
    S = L.sink()
    S.add(z3.Implies(n >= 0, z3.And(seqs.be(t) == n, z3.Length(t) == (hexlen(n) + 1) / 2, z3.Length(t) >= 1)))
    S.add(z3.Implies(n > 0, t[0] != 0))
    S.add(z3.Implies(n == 0, t == z3.Unit(z3.IntVal(0))))
    return t


def m_hex2(ctx, args, kw):
    v = args[0]
    if hasattr(v, "sym_hex"):
        return v.sym_hex(ctx)
    if is_sym(v) and z3.is_int(v):
        return HexNum(v)
    raise Undecided("hex() of symbolic")


NATIVE_MODELS[hex] = m_hex2


# ------------------------------------------------------------------ bit strings (BIP39)
class BitStr(L.SymVal):
    """a string over {0,1}: value and width.  width None = variable width (bin(x)[2:] possibly followed by
    fixed-width parts): `lead` is the leading number rendered without padding, `tail_w` the fixed width after it.
    BitStr axioms (S5): bin(x)[2:] is the shortest binary numeral of x >= 0 ('0' for 0); zfill pads with
    '0' on the left; re.findall('.'*k, s) cuts s into consecutive k-character chunks."""
    def __init__(self, val, width, lead=None, tail_w=0, bounded=False):
        self.val, self.width, self.lead, self.tail_w = val, width, lead, tail_w
        self.bounded = bounded or (not is_sym(val) and width is not None and 0 <= val < 2 ** width)

    def sym_type(self):
        return str

    def sym_getattr(self, ctx, name):
        if name == "zfill":
            def zfill(w):
                w = simplify_native(w)
                if is_sym(w):
                    raise Undecided("zfill with symbolic width")
                if self.width is not None:
                    return BitStr(self.val, max(self.width, w), bounded=self.bounded)
                # variable width: need lead < 2^(w - tail_w) (then the numeral fits) and w - tail_w >= 1
                room = w - self.tail_w
                if room >= 1 and not ctx.feasible(lnot(land(self.lead >= 0, self.lead < 2 ** room))):
                    # the whole value is below 2^w: name it, so that later slices are small terms
                    v = L.define("bits", self.val)
                    if is_sym(v):
                        L.sink().add(z3.And(v >= 0, v < 2 ** w))
                    return BitStr(v, w, bounded=True)
                raise Undecided("zfill: cannot bound the width of a binary numeral")
            return zfill
        raise Undecided("BitStr." + name)

    def sym_subscript(self, ctx, idx):
        if self.width is None:
            raise Undecided("slice of a variable-width bit string")
        W = self.width
        if isinstance(idx, slice):
            a, b = simplify_native(idx.start), simplify_native(idx.stop)
            if is_sym(a) or is_sym(b):
                raise Undecided("symbolic slice of a bit string")
            a, b, _ = slice(a, b).indices(W)
            if b <= a:
                return ""
            if a == 0 and self.bounded:
                v = L.fdiv(self.val, 2 ** (W - b)) if W > b else self.val      # no reduction needed: val < 2^W
            else:
                v = L.fmod(L.fdiv(self.val, 2 ** (W - b)), 2 ** (b - a))
            v = L.define("slice", v)
            if is_sym(v):
                L.sink().add(z3.And(v >= 0, v < 2 ** (b - a)))
            return BitStr(v, b - a, bounded=True)
        raise Undecided("index into a bit string")

    def sym_binop(self, ctx, op, other, reflected):
        if not isinstance(op, ast.Add):
            raise Undecided("BitStr operator")
        o = other
        if isinstance(o, str):
            if o == "":
                return self
            if set(o) <= {"0", "1"}:
                o = BitStr(int(o, 2), len(o))
            else:
                raise Undecided("BitStr + non-binary text")
        if not isinstance(o, BitStr):
            raise Undecided("BitStr + " + type(o).__name__)
        left, right = (o, self) if reflected else (self, o)
        if right.width is None:
            raise Undecided("variable-width bit string on the right of +")
        val = left.val * (2 ** right.width) + right.val
        if left.width is None:
            return BitStr(val, None, lead=left.lead, tail_w=left.tail_w + right.width)
        return BitStr(val, left.width + right.width, bounded=left.bounded and right.bounded)

    def sym_int(self, ctx, *a):
        if not a or simplify_native(a[0]) != 2:
            raise Undecided("int() of a bit string in a base other than 2")
        if self.width == 0:
            raise PyRaise(ValueError)
        return self.val

    def sym_len(self, ctx=None):
        if self.width is None:
            raise Undecided("len of a variable-width bit string")
        return self.width


class BinNum(L.SymVal):
    def __init__(self, n):
        self.n = n

    def sym_subscript(self, ctx, idx):
        if isinstance(idx, slice) and idx.start == 2 and idx.stop is None:
            if not ctx.branch(self.n >= 0):
                raise Undecided("bin() of a negative number")
            return BitStr(self.n, None, lead=self.n, tail_w=0)
        raise Undecided("BinNum subscript")

    def sym_type(self):
        return str


def m_bin2(ctx, args, kw):
    v = simplify_native(args[0])
    if is_sym(v) and z3.is_int(v):
        return BinNum(v)
    raise Undecided("bin() of symbolic")


NATIVE_MODELS[bin] = m_bin2


@nmodel(re.findall)
def m_findall(ctx, args, kw):
    pat, s = args[0], args[1]
    if isinstance(s, BitStr) and isinstance(pat, str) and pat and set(pat) == {"."} and s.width is not None:
        k = len(pat)
        n = s.width // k
        return ctx.new_list([s.sym_subscript(ctx, slice(j * k, (j + 1) * k)) for j in range(n)])
    raise Undecided("re.findall on symbolic text")


# ------------------------------------------------------------------ caught exceptions (opaque payload)
def _exc_attr(name):
    def h(ctx, o):
        return E.Mock(f"exception.{name}")
    return h


ATTR_MODELS["exception"] = {n: _exc_attr(n) for n in ("strerror", "errno", "filename", "args", "msg", "message", "code")}


# ------------------------------------------------------------------ struct (fixed-size integer / bytes layouts over ropes)
import struct as _struct
import re as _re

_STRUCT_INT = {"B": (1, False), "b": (1, True), "H": (2, False), "h": (2, True), "I": (4, False), "i": (4, True),
               "L": (4, False), "l": (4, True), "Q": (8, False), "q": (8, True)}


def _struct_fields(fmt):
    fmt = simplify_native(fmt)
    if isinstance(fmt, (bytes, bytearray)):
        fmt = fmt.decode()
    if not isinstance(fmt, str) or not fmt or fmt[0] not in "<>!":
        raise Undecided("struct format without explicit byte order / standard sizes")
    little = fmt[0] == "<"
    out = []
    for cnt, code in _re.findall(r"(\d*)([A-Za-z?])", fmt[1:].replace(" ", "")):
        n = int(cnt) if cnt else 1
        if code == "s":
            out.append(("s", n, False))
        elif code == "x":
            out.append(("x", n, False))
        elif code in _STRUCT_INT:
            out += [(code, _STRUCT_INT[code][0], _STRUCT_INT[code][1])] * n
        else:
            raise Undecided("struct format code " + code)
    return little, out, _struct.calcsize(fmt)


def _struct_unpack(ctx, fmt, data):
    little, fields, size = _struct_fields(fmt)
    try:
        r = as_rope(simplify_native(data))
    except TypeError:
        raise Undecided("struct.unpack of data of symbolic length")
    if len(r) != size:
        raise PyRaise(_struct.error, "unpack requires a buffer of %d bytes" % size)
    out, pos = [], 0
    for code, n, signed in fields:
        seg = r.slice(pos, pos + n)
        pos += n
        if code == "x":
            continue
        if code == "s":
            out.append(seg)
            continue
        v = seg.le() if little else seg.be()
        if signed:
            v = simplify_native(L.ite(v >= 2 ** (8 * n - 1), v - 2 ** (8 * n), v))
        out.append(v)
    return tuple(out)


def _struct_pack(ctx, fmt, vals):
    little, fields, size = _struct_fields(fmt)
    vals = list(vals)
    segs = Rope()
    for code, n, signed in fields:
        if code == "x":
            segs = segs + Rope.of(bytes(n))
            continue
        if not vals:
            raise PyRaise(_struct.error, "pack expected more items")
        v = simplify_native(vals.pop(0))
        if code == "s":
            b = as_rope(v)
            if len(b) != n:
                raise Undecided("struct 's' field with a value of another length (padding/truncation)")
            segs = segs + b
            continue
        lo, hi = (-(2 ** (8 * n - 1)), 2 ** (8 * n - 1)) if signed else (0, 2 ** (8 * n))
        if not ctx.branch(L.land(lo <= v, v < hi) if is_sym(v) else (lo <= v < hi)):
            raise PyRaise(_struct.error, "argument out of range")
        if signed:
            v = simplify_native(L.ite(v < 0, v + 2 ** (8 * n), v))
        segs = segs + Rope([(v, n, little)])
    if vals:
        raise PyRaise(_struct.error, "pack expected fewer items")
    return segs


def m_struct_unpack(ctx, args, kw):
    return _struct_unpack(ctx, args[0], args[1])
m_struct_unpack.always = True


def m_struct_pack(ctx, args, kw):
    return _struct_pack(ctx, args[0], args[1:])
m_struct_pack.always = True


def m_struct_calcsize(ctx, args, kw):
    return _struct_fields(args[0])[2]


def m_struct_Struct(ctx, args, kw):
    fmt = args[0] if args else kw["format"]
    return ModelObj("Struct", fmt=simplify_native(fmt))
m_struct_Struct.always = True


NATIVE_MODELS[_struct.unpack] = m_struct_unpack
NATIVE_MODELS[_struct.pack] = m_struct_pack
NATIVE_MODELS[_struct.Struct] = m_struct_Struct
ATTR_MODELS["Struct"] = {
    "size": lambda ctx, o: _struct_fields(o.f["fmt"])[2],
    "format": lambda ctx, o: o.f["fmt"],
    "unpack": lambda ctx, o: (lambda data: _struct_unpack(ctx, o.f["fmt"], data)),
    "pack": lambda ctx, o: (lambda *vals: _struct_pack(ctx, o.f["fmt"], vals)),
}


def _native_struct_attr(name):
    """methods of a REAL struct.Struct object (module-level constant of the repository) called on symbolic data"""
    def m(ctx, selfv, args, kw):
        if name == "unpack":
            return _struct_unpack(ctx, selfv.format, args[0])
        return _struct_pack(ctx, selfv.format, args)
    return m


NATIVE_MODELS[(_struct.Struct, "unpack", "inst")] = _native_struct_attr("unpack")
NATIVE_MODELS[(_struct.Struct, "pack", "inst")] = _native_struct_attr("pack")


# ------------------------------------------------------------------ getattr / hasattr with a constant attribute name
def m_getattr(ctx, args, kw):
    if kw or len(args) not in (2, 3):
        raise Undecided("getattr call shape")
    name = simplify_native(args[1])
    if isinstance(name, SStr) and name.native() is not None:
        name = name.native()
    if not isinstance(name, str):
        raise Undecided("getattr with a computed attribute name")
    try:
        return ctx.getattr(args[0], name)
    except PyRaise as e:
        if len(args) == 3 and isinstance(e.exc_cls, type) and issubclass(e.exc_cls, AttributeError):
            return args[2]
        raise


NATIVE_MODELS[getattr] = m_getattr


# ------------------------------------------------------------------ iteration helpers over heap lists / concrete shapes
import functools as _functools


def m_enumerate(ctx, args, kw):
    start = simplify_native(kw.get("start", args[1] if len(args) > 1 else 0))
    if set(kw) - {"start"} or len(args) > 2 or not isinstance(start, int):
        raise Undecided("enumerate call shape")
    return [(start + i, x) for i, x in enumerate(E.iterate(ctx, args[0]))]


def m_zip(ctx, args, kw):
    if set(kw) - {"strict"}:
        raise Undecided("zip call shape")
    cols = [E.iterate(ctx, a) for a in args]
    if kw.get("strict") and len({len(c) for c in cols}) > 1:
        raise PyRaise(ValueError, "zip() arguments have different lengths")
    return [tuple(t) for t in zip(*cols)]


def m_reversed(ctx, args, kw):
    if kw or len(args) != 1:
        raise Undecided("reversed call shape")
    return list(reversed(E.iterate(ctx, args[0])))


def m_reduce(ctx, args, kw):
    if kw or len(args) not in (2, 3):
        raise Undecided("reduce call shape")
    items = E.iterate(ctx, args[1])
    if len(args) == 3:
        acc = args[2]
    else:
        if not items:
            raise PyRaise(TypeError, "reduce() of empty iterable with no initial value")
        acc, items = items[0], items[1:]
    for x in items:
        acc = ctx.call_value(args[0], [acc, x], {})
    return acc


for _f, _m in ((enumerate, m_enumerate), (zip, m_zip), (reversed, m_reversed), (_functools.reduce, m_reduce)):
    NATIVE_MODELS[_f] = _m


def m_next(ctx, args, kw):
    if kw or len(args) not in (1, 2):
        raise Undecided("next call shape")
    it = args[0]
    if isinstance(it, E.GenTuple):
        if it.pos < len(it):
            it.pos += 1
            return it[it.pos - 1]
        if len(args) == 2:
            return args[1]
        raise PyRaise(StopIteration)
    if isinstance(it, (tuple, list, str, bytes, dict)) or isinstance(it, E.Ref):
        raise PyRaise(TypeError, "object is not an iterator")
    raise Undecided("next() of " + type(it).__name__)


m_next.always = True
NATIVE_MODELS[next] = m_next


# ------------------------------------------------------------------ constant dict .get with a symbolic key
def m_dict_get(ctx, selfv, args, kw):
    if kw or len(args) not in (1, 2):
        raise Undecided("dict.get call shape")
    if not (len(selfv) <= 64 and all(isinstance(k, (int, str, bytes)) for k in selfv)):
        raise Undecided("dict.get on a table that is not small and plainly keyed")
    # (a module / class level dict that the package also WRITES never gets here: it is ProgramState)
    key = simplify_native(args[0])
    default = simplify_native(args[1]) if len(args) == 2 else None
    r = E.table_term(ctx, selfv, key, default)
    if r is not None:
        return r
    for k in selfv:
        if ctx.branch(E.value_eq(ctx, key, k)):
            return E.lift_native(ctx, selfv[k])
    return default


NATIVE_MODELS[(dict, "get", "inst")] = m_dict_get


# ------------------------------------------------------------------ diagnostics: logging / warnings are not program results
import logging as _logging
import warnings as _warnings


def _m_log(ctx, selfv, args, kw):
    """Logger.debug/info/...: formats its arguments lazily and hands the record to handlers; assumed not to raise and
    not to touch the values the properties speak about (standard output, files, return values).  Recorded as an effect
    so that a contract about emitted secrets can see WHAT was logged."""
    ctx.diagnostics = getattr(ctx, "diagnostics", []) + [("log", tuple(args), dict(kw))]
    return None


_m_log.always = True
for _nm in ("debug", "info", "warning", "warn", "error", "critical", "exception", "log"):
    NATIVE_MODELS[(_logging.Logger, _nm, "inst")] = _m_log
    NATIVE_MODELS[(_logging.LoggerAdapter, _nm, "inst")] = _m_log
NATIVE_MODELS[(_logging.Logger, "isEnabledFor", "inst")] = lambda ctx, selfv, args, kw: (_ for _ in ()).throw(Undecided("logging configuration (isEnabledFor)"))
NATIVE_MODELS[(_logging.Logger, "isEnabledFor", "inst")].always = True


def _m_warn(ctx, args, kw):
    ctx.diagnostics = getattr(ctx, "diagnostics", []) + [("warn", tuple(args), dict(kw))]
    return None


_m_warn.always = True
NATIVE_MODELS[_warnings.warn] = _m_warn
