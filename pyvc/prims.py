"""External primitives as uninterpreted functions (symbolic) / the real library (concrete).

The SAME symbols are used by the models of the library calls made by the repository code and
by the spec functions in the contracts, so a proof is about how the repository uses them
(DESIGN §2.8 H1-H4, E1-E6).  In concrete mode an OVERRIDES table (installed by the replay
harness from a z3 model) takes precedence: that is the "substituted PRF" of C01/C18."""
import hashlib
import hmac as _hmac
import z3
from .logic import (SymVal, Rope, as_rope, is_sym, sink, land, lor, lnot, implies, eq, ite, to_be,
                    INT)

N = 0xFFFFFFFFFFFFFFFFFFFFFFFFFFFFFFFEBAAEDCE6AF48A03BBFD25E8CD0364141   # SEC2 secp256k1 order
P_FIELD = 2 ** 256 - 2 ** 32 - 977

OVERRIDES = {}      # (name, arg-bytes...) -> bytes      (concrete mode only)


WILDCARD = {}       # name -> callable(*nat) -> bytes | None   (bounded stand-in: chosen-output PRF)


def override(name, *nat):
    """exact match first; else a stub entry with the same key bytes and message length (the
    model's values for EC-derived message bytes are not the real ones): a chosen-output PRF"""
    ov = OVERRIDES.get((name,) + nat)
    if ov is not None:
        return ov
    if name == "hmac512" and OVERRIDES:
        for (n2, k2, m2), out in OVERRIDES.items():
            if n2 == name and k2 == nat[0] and len(m2) == len(nat[1]) and m2[-4:] == nat[1][-4:]:
                return out
    w = WILDCARD.get(name)
    if w is not None:
        return w(*nat)
    return None


Pt = z3.DeclareSort("Pt")
INF = z3.Const("INF", Pt)
_ecmul = z3.Function("ecmul", INT, Pt)                  # k -> k*G  (k taken mod n by axiom instances)
_ptadd = z3.Function("pt_add", Pt, Pt, Pt)
_sec_c = z3.Function("sec_c", Pt, INT)                  # 33-byte compressed SEC as an integer
_sec_u = z3.Function("sec_u", Pt, INT)                  # 65-byte uncompressed
_valid = {}
_unsec = {}


def _uf(name, nargs, ret=INT):
    return z3.Function(name, *([INT] * nargs), ret)


def _record(name, args, res):
    S = sink()
    if not hasattr(S, "uf_apps"):
        S.uf_apps = []
    S.uf_apps.append((name, args, res))


def _hash_like(name, outlen, native_fn, *ropes):
    from .logic import OBytes
    if any(isinstance(r, OBytes) for r in ropes):
        f = _uf(name + "_any", 2 * len(ropes))
        a = []
        for r in ropes:
            if isinstance(r, OBytes):
                a += [r.val, r.len]
            else:
                r = as_rope(r)
                v = r.be()
                a += [v if is_sym(v) else z3.IntVal(v), z3.IntVal(len(r))]
        res = f(*a)
        sink().add(z3.And(res >= 0, res < 256 ** outlen))
        out = Rope([(res, outlen, False)])
        return out
    ropes = [as_rope(r) for r in ropes]
    if all(r.is_concrete() for r in ropes):
        nat = tuple(r.native() for r in ropes)
        ov = override(name, *nat)
        if ov is not None:
            return Rope.of(ov)
        return Rope.of(native_fn(*nat))
    fname = name + "_" + "_".join(str(len(r)) for r in ropes)
    f = _uf(fname, len(ropes))
    vals = [z3.IntVal(r.be()) if not is_sym(r.be()) else r.be() for r in ropes]
    res = f(*vals)
    sink().add(z3.And(res >= 0, res < 256 ** outlen))
    _record(name, ropes, Rope([(res, outlen, False)]))
    return Rope([(res, outlen, False)])


def _native_ripemd(b):
    h = hashlib.new("ripemd160")
    h.update(b)
    return h.digest()


def sha256(b):
    return _hash_like("sha256", 32, lambda x: hashlib.sha256(x).digest(), b)


def sha512(b):
    return _hash_like("sha512", 64, lambda x: hashlib.sha512(x).digest(), b)


def ripemd160(b):
    return _hash_like("ripemd160", 20, _native_ripemd, b)


def hash160(b):
    return ripemd160(sha256(b))


def hash256(b):
    return sha256(sha256(b))


def hmac512(key, msg):
    return _hash_like("hmac512", 64,
                      lambda k, m: _hmac.new(k, m, hashlib.sha512).digest(), key, msg)


def pbkdf2_sha512(pw, salt, rounds, dklen=64):
    assert isinstance(rounds, int) and isinstance(dklen, int)
    return _hash_like(f"pbkdf2_sha512_r{rounds}_d{dklen}", dklen,
                      lambda p, s: hashlib.pbkdf2_hmac("sha512", p, s, rounds, dklen), pw, salt)


# ------------------------------------------------------------------ secp256k1 (abstract group)

class SymPt(SymVal):
    """A curve point: symbolic term of sort Pt, or a native ecdsa point."""
    __slots__ = ("t",)

    def __init__(self, t):
        self.t = t

    def sym_eq(self, other):
        if isinstance(other, SymPt):
            a, b = self.t, other.t
            if is_sym(a) and is_sym(b):
                return a == b
            if is_sym(a) or is_sym(b):
                s, n = (a, b) if is_sym(a) else (b, a)
                if s.eq(INF):
                    return n == _native_INF()
                if n == _native_INF():
                    return s == INF
                raise NotImplementedError("mixing native and symbolic points")
            return a == b
        return False

    def __repr__(self):
        return f"SymPt({self.t})"


def _native_G():
    import ecdsa
    return ecdsa.ecdsa.generator_secp256k1


def _native_INF():
    import ecdsa
    return ecdsa.ellipticcurve.INFINITY


def _pt_term(p):
    if is_sym(p.t):
        return p.t
    if p.t == _native_INF():
        return INF
    raise NotImplementedError("mixing native and symbolic points")


def inf():
    return SymPt(INF)


def ecmul(k):
    """k*G"""
    if not is_sym(k):
        if k % N == 0:
            return SymPt(_native_INF())
        return SymPt(_native_G() * (k % N))
    t = _ecmul(k)
    # E5 instance: k*G = INF  <=>  k = 0 (mod n)
    sink().add((t == INF) == (k % N == 0))
    sink().add(_ecmul(k % N) == t)
    return SymPt(t)


def ptadd(a, b):
    if not is_sym(a.t) and not is_sym(b.t):
        return SymPt(a.t + b.t)
    ta, tb = _pt_term(a), _pt_term(b)
    r = _ptadd(ta, tb)
    S = sink()
    # group-law instances (E5): commutativity, identity, and the homomorphism on k*G terms
    S.add(_ptadd(tb, ta) == r)
    S.add(_ptadd(ta, INF) == ta)
    S.add(_ptadd(INF, tb) == tb)
    for x, y in ((ta, tb),):
        if z3.is_app(x) and x.decl().eq(_ecmul) and z3.is_app(y) and y.decl().eq(_ecmul):
            kx, ky = x.arg(0), y.arg(0)
            s = _ecmul((kx + ky) % N)
            S.add(r == s)
            S.add((s == INF) == ((kx + ky) % N == 0))
    return SymPt(r)


def sec(p, compressed=True):
    """SEC1 encoding of a finite point."""
    if not is_sym(p.t):
        from ecdsa import VerifyingKey, SECP256k1
        vk = VerifyingKey.from_public_point(p.t, curve=SECP256k1)
        return Rope.of(vk.to_string("compressed" if compressed else "uncompressed"))
    S = sink()
    if compressed:
        v = _sec_c(p.t)
        S.add(z3.And(v >= 2 * 256 ** 32, v < 4 * 256 ** 32))      # first byte 02 or 03
        S.add(unsec_fn(33)(v) == p.t)
        S.add(implies(p.t != INF, valid_fn(33)(v)))
        return Rope([(v, 33, False)])
    v = _sec_u(p.t)
    S.add(z3.And(v >= 4 * 256 ** 64, v < 5 * 256 ** 64))          # first byte 04
    S.add(unsec_fn(65)(v) == p.t)
    S.add(implies(p.t != INF, valid_fn(65)(v)))
    return Rope([(v, 65, False)])


def valid_fn(L):
    if L not in _valid:
        _valid[L] = z3.Function(f"sec_valid_{L}", INT, z3.BoolSort())
    return _valid[L]


def unsec_fn(L):
    if L not in _unsec:
        _unsec[L] = z3.Function(f"unsec_{L}", INT, Pt)
    return _unsec[L]


def sec_parse(rope):
    """E4: (accepted?, point).  Accepted exactly for on-curve compressed (33), uncompressed (65),
    hybrid (65) and raw (64) encodings."""
    rope = as_rope(rope)
    L = len(rope)
    if rope.is_concrete():
        from ecdsa import VerifyingKey, SECP256k1
        try:
            vk = VerifyingKey.from_string(rope.native(), curve=SECP256k1)
            return True, SymPt(vk.pubkey.point)
        except Exception:
            return False, None
    if L not in (33, 64, 65):
        return False, None
    v = rope.be()
    if L == 33 and z3.is_app(v) and v.decl().eq(_sec_c):
        # the compressed encoding OF a point parses back to that point (E4)
        pt = v.arg(0)
        return pt != INF, SymPt(pt)
    if L == 65 and z3.is_app(v) and v.decl().eq(_sec_u):
        pt = v.arg(0)
        return pt != INF, SymPt(pt)
    ok = valid_fn(L)(v)
    p = unsec_fn(L)(v)
    S = sink()
    S.add(implies(ok, p != INF))
    if L == 33:
        # a valid 33-byte encoding starts with 02/03 and re-encodes to itself
        S.add(implies(ok, z3.And(v >= 2 * 256 ** 32, v < 4 * 256 ** 32)))
        S.add(implies(ok, _sec_c(p) == v))
    return ok, SymPt(p)
